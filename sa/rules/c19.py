"""C19 — library calls keep their call signature while being traced (structural part).

R-C19a  signature subsumption: for every tracing-time substitute (MonkeyPatchSpec / jnp_binding_specs)
        every call form the replaced library callable binds (positional index, keyword name, omitted
        optional) also binds on the installed wrapper
R-C19b  nothing silently ignored: every wrapper parameter is used (forwarded, tested, passed on) —
        a parameter that is deleted or never read is a violation unless listed as inert
R-C19c  the keys a wrapper passes to `<prim>.bind(..., k=v)` are accepted by the plugin's
        abstract_eval (writer/reader agreement; shared with C01)
"""
from __future__ import annotations

import ast
import inspect
import warnings
from typing import Dict, List, Optional, Set, Tuple

from ..flow import defuse, names_in, param_value_used
from ..index import AnalysisError, FuncInfo, Index, call_name, dotted, parents, walk_no_nested
from ..patchspecs import PatchSpec, collect_specs
from ..guards import src
from ..report import Results
from ..sigs import Sig, library_object, sig_from_ast, sig_from_inspect, unbound_forms
import re

from ..tables.inert import DOC_IGNORED_PATTERN, INERT_WRAPPER_PARAMS


def _wrapper_name(sp: PatchSpec) -> str:
    if sp.wrapper_fi is not None:
        return sp.wrapper_fi.qualname
    return "<lambda>"


def run(res: Results, idx: Index, tier: str) -> None:
    res.rule("R-C19a", "every call form bound by the replaced library callable binds on the installed substitute", floor=150)
    res.rule("R-C19b", "every parameter of a substitute is read (forwarded / tested / passed to the original); deleted or never-read parameters must be in the inert table", floor=150)
    res.rule("R-C19c", "keyword keys passed to <prim>.bind by a substitute are accepted by that plugin's abstract_eval", floor=100)
    res.trusted += ["inspect.signature of the installed jax / flax / equinox / dm_pix callables (third-party reference; jax2onnx is not imported)"]
    res.assumptions += ["generic (*args, **kwargs) forwarders are compared through the plugin's abstract_eval keyword parameters only",
                        "whether an accepted argument is lowered with the same meaning is not decided"]
    warnings.filterwarnings("ignore")
    specs, stats = collect_specs(idx)
    res.analysed.update(stats)
    res.analysed["spec_sites"] = len(specs)
    if len(specs) < 150:
        raise AnalysisError(f"only {len(specs)} patch specs found (288 on the pinned tree)")

    seen_b: Set[int] = set()
    n_cmp = 0
    lib_versions: Dict[str, str] = {}
    for sp in specs:
        cls_name = sp.cls.name if sp.cls else "?"
        if sp.target is None or sp.attr is None or (sp.wrapper is None and sp.kind != "jnp_generic"):
            res.unresolved("R-C19a", sp.site, f"{sp.module.rel}::{cls_name}::<unresolved>", f"patch spec not resolved: {sp.why}", cls_name)
            continue
        root = sp.target.split(".")[0]
        orig, err = library_object(sp.target, sp.attr)
        if root not in lib_versions:
            try:
                lib_versions[root] = getattr(__import__(root), "__version__", "?")
            except Exception:
                lib_versions[root] = "not installed"
        key0 = f"{sp.fq}"
        if orig is None:
            res.unresolved("R-C19a", sp.site, f"{key0}::<missing>", err, cls_name)
            continue
        try:
            osig = sig_from_inspect(inspect.signature(orig))
        except (TypeError, ValueError) as e:
            res.unresolved("R-C19a", sp.site, f"{key0}::<nosig>", f"no introspectable signature: {e}", cls_name)
            continue
        if sp.kind == "jnp_generic" or sp.generic:
            wsig = _abstract_eval_sig(idx, sp)
            if wsig is None:
                res.unresolved("R-C19a", sp.site, f"{key0}::<generic>", "generic forwarder and no abstract_eval found", cls_name)
                continue
            # only keyword names can be compared for forwarders: bind(*args, **kwargs) -> abstract_eval(*avals, **params)
            n_cmp += 1
            bad = False
            for p in osig.params:
                if p.kind in ("poskw", "kwonly") and p.has_default:
                    if wsig.keyword_capable(p.name) is None and not wsig.has_varkw and not any(q.name == p.name for q in wsig.params):
                        bad = True
                        res.violation("R-C19a", sp.site, f"{key0}::{p.name}::keyword", f"{sp.fq}({p.name}=…) is valid in the library; the substitute forwards it to bind() but abstract_eval{wsig.render()} has no such parameter", cls_name,
                                      original=osig.render(), substitute="(*args, **kwargs) -> bind -> abstract_eval" + wsig.render())
            bad = _positional_hyperparameters(res, idx, sp, osig, key0, cls_name) or bad
            if not bad:
                res.ok("R-C19a", sp.site, f"{key0}::*", f"generic forwarder; abstract_eval{wsig.render()} accepts every optional keyword of {osig.render()}", cls_name)
            continue
        wsig = sig_from_ast(sp.wrapper.args)  # type: ignore[union-attr]
        n_cmp += 1
        forms = unbound_forms(osig, wsig, sp.fq)
        va = sp.wrapper.args.vararg.arg if sp.wrapper.args.vararg is not None else None  # type: ignore[union-attr]
        if va and any(isinstance(c, ast.Call) and isinstance(c.func, ast.Attribute) and c.func.attr == "bind" and any(isinstance(a, ast.Starred) and isinstance(a.value, ast.Name) and a.value.id == va for a in c.args)
                      for c in ast.walk(sp.wrapper)):
            _positional_hyperparameters(res, idx, sp, osig, key0, cls_name)
        if not forms:
            res.ok("R-C19a", sp.site, f"{key0}::*", f"{wsig.render()} subsumes {osig.render()}", cls_name)
        for pname, form, why in forms:
            res.violation("R-C19a", sp.site, f"{key0}::{pname}::{form}", f"{sp.fq}: {why}", cls_name, original=osig.render(), substitute=wsig.render(), wrapper=_wrapper_name(sp))

        # ---------------- R-C19b
        w = sp.wrapper
        if w is None or isinstance(w, ast.Lambda) or id(w) in seen_b:
            continue
        seen_b.add(id(w))
        names = [p.name for p in wsig.params]
        loaded = {n.id for n in ast.walk(w) if isinstance(n, ast.Name) and isinstance(n.ctx, ast.Load)}
        deleted = {t.id for n in ast.walk(w) if isinstance(n, ast.Delete) for t in n.targets if isinstance(t, ast.Name)}
        uses_locals = any(isinstance(n, ast.Call) and (call_name(n) or "") in ("locals", "vars") for n in ast.walk(w))
        for i, nm in enumerate(names):
            if nm in ("self", "cls") and i == 0:
                continue
            k = f"{sp.fq}::{nm}"
            site = f"{sp.module.rel}:{w.lineno}"
            if uses_locals:
                res.unresolved("R-C19b", site, k, "wrapper reads locals()", cls_name)
                continue
            used = nm in loaded and param_value_used(w, nm)
            if used and not _forwarded_value_used(idx, sp, w, nm):
                used = False
            if used:
                res.ok("R-C19b", site, k, "", cls_name)
                continue
            reason = INERT_WRAPPER_PARAMS.get((sp.fq, nm)) or INERT_WRAPPER_PARAMS.get(("*", nm))
            if not reason:
                doc = (getattr(orig, "__doc__", None) or "") + (getattr(getattr(orig, "__wrapped__", None), "__doc__", None) or "")
                if re.search(DOC_IGNORED_PATTERN.format(name=re.escape(nm)), doc):
                    reason = f"the installed library documents `{nm}` of {sp.fq} as ignored"
            if reason:
                res.ok("R-C19b", site, k, f"inert: {reason}", cls_name)
            else:
                res.violation("R-C19b", site, k, f"substitute for {sp.fq} accepts `{nm}` but {'deletes' if nm in deleted else 'never reads'} its value: the argument is silently ignored while tracing", cls_name, wrapper=_wrapper_name(sp))

    res.analysed["substitutes_compared"] = n_cmp
    res.analysed["library_versions"] = lib_versions

    # ---------------- R-C19c bind keys vs abstract_eval
    _bind_keys(res, idx)
    rule_d(res, idx, specs)

    # positive controls
    o = Sig([])
    from ..sigs import Param
    o = Sig([Param("a", "poskw", False), Param("b", "poskw", True), Param("c", "kwonly", True)])
    wr = Sig([Param("a", "poskw", False), Param("bb", "kwonly", True)])
    forms = {(p, f) for p, f, _ in unbound_forms(o, wr)}
    res.control("R-C19a", "positional, renamed-keyword and keyword-only forms are reported on a synthetic pair", {("b", "positional#1"), ("b", "keyword"), ("c", "keyword-only")} <= forms, str(sorted(forms)))
    rule_e(res, idx)
    rule_f(res, idx, tier)
    rule_g(res, idx)
    rule_h(res, idx)
    rule_j(res, idx)
    rule_k(res, idx, specs)
    rule_l(res, idx, specs)
    rule_m(res, idx, specs)
    from .c19_modules import run_module_fields
    run_module_fields(res, idx, specs)
    if not getattr(res, "_nested_xref", False):
        # a memo that forgets a parameter ignores that argument on every later call (C14 R-C14g)
        from . import c14
        res.rule("R-C19i", "memoised abstract evaluations / lowerings are keyed by every argument (C14 R-C14g)", floor=1)
        sub = Results("C14", tier)
        setattr(sub, "_nested_xref", True)
        c14.rule_g(sub, idx)
        for inst in sub.instances:
            if inst.rule == "R-C14g":
                res.add("R-C19i", inst.status, inst.site, f"R-C14g::{inst.key}", f"[C14 R-C14g] {inst.detail}", inst.func)


def _forwarded_value_used(idx: Index, sp, w: ast.AST, nm: str) -> bool:
    """False only when EVERY read of parameter `nm` in the substitute hands it to a package function that resolves and whose
    corresponding parameter is deleted / never read (one level deep): the argument is then accepted and dropped by the callee."""
    loads = [x for x in ast.walk(w) if isinstance(x, ast.Name) and x.id == nm and isinstance(x.ctx, ast.Load)]
    if not loads:
        return True
    for x in loads:
        par = getattr(x, "parent", None)
        call = None
        kwname = None
        pos = None
        if isinstance(par, ast.keyword) and isinstance(getattr(par, "parent", None), ast.Call):
            call, kwname = par.parent, par.arg
        elif isinstance(par, ast.Call) and x in par.args:
            call, pos = par, par.args.index(x)
        if call is None:
            return True          # used in some other way (test, arithmetic, bind keyword, return …)
        cn = call_name(call) or ""
        if not cn or "." in cn and not cn.startswith(("self.", "cls.")):
            return True
        g = idx.resolve_func(sp.module, cn, cls=sp.cls)
        if g is None:
            return True
        ga = g.node.args  # type: ignore[attr-defined]
        gparams = [a.arg for a in ga.posonlyargs + ga.args]
        if gparams and gparams[0] in ("self", "cls") and cn.startswith(("self.", "cls.")):
            gparams = gparams[1:]
        target = kwname if kwname is not None else (gparams[pos] if pos is not None and pos < len(gparams) else None)
        if target is None or target not in [a.arg for a in ga.posonlyargs + ga.args + ga.kwonlyargs]:
            return True
        if param_value_used(g.node, target):
            return True
    return False


def rule_f(res: Results, idx: Index, tier: str) -> None:
    """An accepted argument that is bound on the primitive has to reach the lowering on every configuration: for
    fori_loop(lower, upper, …) that is decided by C06 R-C06e (trip count, bind(lower=…), body index = iteration + lower on
    every lower != 0 path).  The same instances are decided here: a `lower` that is forwarded through every hop and then
    dropped under an unrelated condition is an argument that is silently ignored."""
    if getattr(res, "_nested_xref", False):
        return
    res.rule("R-C19f", "fori_loop's lower / upper arguments reach the Loop trip count and the body index on every path (C06 R-C06e)", floor=3)
    from . import c06
    sub = Results("C06", tier)
    setattr(sub, "_nested_xref", True)
    c06.run(sub, idx, tier)
    n = 0
    for inst in sub.instances:
        if inst.rule == "R-C06e":
            n += 1
            res.add("R-C19f", inst.status, inst.site, f"R-C06e::{inst.key}", f"[C06 R-C06e] {inst.detail}", inst.func)
    res.analysed["cross_referenced_fori_loop_instances"] = n


def _only_deleted(w: ast.AST, nm: str) -> bool:
    """`del nm` with no other read of the name"""
    loads = [n for n in ast.walk(w) if isinstance(n, ast.Name) and n.id == nm and isinstance(n.ctx, ast.Load)]
    return not loads


def _positional_hyperparameters(res: Results, idx: Index, sp: PatchSpec, osig: Sig, key0: str, cls_name: str) -> bool:
    """bind(*args) makes every positional argument an OPERAND.  A library parameter that may be passed positionally and that the
    plugin's lowering reads as a primitive PARAMETER (eqn.params["p"]) is then either ignored (the lowering falls back to its
    default) or breaks the operand unpacking."""
    lower_f = idx.resolve_method(sp.cls, "lower") if sp.cls is not None else None
    if lower_f is None:
        return False
    bad = False
    pkeys = {c.value for c in ast.walk(lower_f.node) if isinstance(c, ast.Constant) and isinstance(c.value, str)}
    for i, p in enumerate(osig.params):
        if i >= 1 and p.kind == "poskw" and p.has_default and p.name in pkeys:
            bad = True
            res.violation("R-C19a", sp.site, f"{key0}::{p.name}::positional-hyperparameter", f"{sp.fq}(x, <{p.name}>) is valid in the library; the substitute forwards positional arguments to bind() as operands, "
                          f"while {cls_name}.lower reads `{p.name}` from the equation's parameters: the positional value is ignored (default used) or the operand unpacking fails", cls_name,
                          original=osig.render(), substitute="(*args, **kwargs) -> bind(*args, **kwargs)")
    return bad


def _abstract_eval_sig(idx: Index, sp: PatchSpec) -> Optional[Sig]:
    if sp.cls is None:
        return None
    f = idx.resolve_method(sp.cls, "abstract_eval")
    if f is None:
        return None
    sig = sig_from_ast(f.node.args)  # type: ignore[attr-defined]
    # drop self/cls
    if sig.params and sig.params[0].name in ("self", "cls"):
        decos = {dotted(d) for d in f.node.decorator_list}  # type: ignore[attr-defined]
        if "staticmethod" not in decos:
            sig = Sig(sig.params[1:])
    return sig


def _bind_keys(res: Results, idx: Index) -> None:
    """For each plugin class: keyword keys used in `cls._PRIM.bind(...)` inside the plugin's module must be
    parameters of abstract_eval (or it takes **kwargs)."""
    for m in idx.product_modules():
        if ".plugins." not in m.name or ".plugins.examples" in m.name:
            continue
        for c in m.classes.values():
            ae = idx.resolve_method(c, "abstract_eval")
            if ae is None or "_PRIM" not in c.consts and not any(isinstance(st, (ast.Assign, ast.AnnAssign)) and "_PRIM" in ast.unparse(st).split("=")[0] for st in c.node.body):
                continue
            asig = sig_from_ast(ae.node.args)  # type: ignore[attr-defined]
            anames = {p.name for p in asig.params}
            for fi in m.funcs.values():
                if fi.cls is not c:
                    continue
                for n in walk_no_nested(fi.node):
                    if isinstance(n, ast.Call) and isinstance(n.func, ast.Attribute) and n.func.attr == "bind":
                        recv = dotted(n.func.value) or ""
                        if not (recv.endswith("._PRIM") and recv.split(".")[0] in ("cls", "self", c.name)):
                            continue
                        for k in n.keywords:
                            if k.arg is None:
                                continue
                            key = f"{m.rel}::{c.name}::bind::{k.arg}"
                            if k.arg in anames or asig.has_varkw:
                                res.ok("R-C19c", f"{m.rel}:{n.lineno}", key, "", fi.qualname)
                            else:
                                res.violation("R-C19c", f"{m.rel}:{n.lineno}", key, f"{c.name}: bind(…, {k.arg}=…) but abstract_eval{asig.render()} does not accept `{k.arg}`: tracing raises TypeError for this call form", fi.qualname)


# ---------------------------------------------------------------------------------------------- R-C19d
def _len_gt(test: ast.AST, seq: str):
    """`len(seq) > n` / `len(seq) >= n` -> the smallest length that satisfies the test, else None"""
    if isinstance(test, ast.Compare) and len(test.ops) == 1 and isinstance(test.left, ast.Call) and (call_name(test.left) or "") == "len" and test.left.args \
            and isinstance(test.left.args[0], ast.Name) and test.left.args[0].id == seq and isinstance(test.comparators[0], ast.Constant) and isinstance(test.comparators[0].value, int):
        n = test.comparators[0].value
        if isinstance(test.ops[0], ast.Gt):
            return n + 1
        if isinstance(test.ops[0], ast.GtE):
            return n
    return None


def manual_positional_reads(fn: ast.AST):
    """In a function that receives a positional tuple (a *vararg or a parameter named like one), find
    `SEQ[k]` reads guarded by a length test on the same sequence.  Yields (node, seq, k, min_len, how)."""
    a = fn.args  # type: ignore[attr-defined]
    seqs = {}
    if a.vararg is not None:
        seqs[a.vararg.arg] = 0
    for p in a.posonlyargs + a.args:
        if p.arg in ("args", "call_args", "positional"):
            seqs[p.arg] = 0
    # a, *rest = args
    for n in ast.walk(fn):
        if isinstance(n, ast.Assign) and isinstance(n.targets[0], ast.Tuple) and isinstance(n.value, ast.Name) and n.value.id in seqs:
            elts = n.targets[0].elts
            for i, e in enumerate(elts):
                if isinstance(e, ast.Starred) and isinstance(e.value, ast.Name) and i == len(elts) - 1:
                    seqs[e.value.id] = seqs[n.value.id] + i
    if not seqs:
        return
    for n in ast.walk(fn):
        # V = SEQ[k] if len(SEQ) > n else <default>
        if isinstance(n, ast.IfExp) and isinstance(n.body, ast.Subscript) and isinstance(n.body.value, ast.Name) and n.body.value.id in seqs and isinstance(n.body.slice, ast.Constant) and isinstance(n.body.slice.value, int):
            seq, k = n.body.value.id, n.body.slice.value
            ml = _len_gt(n.test, seq)
            if ml is not None and k >= 0:
                yield n, seq, k, ml, seqs[seq], n.orelse
        # if len(SEQ) > n: V = SEQ[k]  [else: V = <default>]
        if isinstance(n, ast.If) and len(n.body) == 1 and isinstance(n.body[0], ast.Assign) and isinstance(n.body[0].value, ast.Subscript):
            sub = n.body[0].value
            if isinstance(sub.value, ast.Name) and sub.value.id in seqs and isinstance(sub.slice, ast.Constant) and isinstance(sub.slice.value, int) and sub.slice.value >= 0:
                ml = _len_gt(n.test, sub.value.id)
                if ml is not None:
                    other = n.orelse[0].value if len(n.orelse) == 1 and isinstance(n.orelse[0], ast.Assign) else None
                    yield n, sub.value.id, sub.slice.value, ml, seqs[sub.value.id], other


def rule_d(res: Results, idx: Index, specs) -> None:
    res.rule("R-C19d", "manual positional canonicalisation in (*args, **kwargs) substitutes: `args[k]` is taken exactly when len(args) > k, and the keyword fallback names the library's parameter at that position", floor=4)
    seen = set()
    for sp in specs:
        w = sp.wrapper
        if w is None or isinstance(w, ast.Lambda) or sp.target is None or sp.attr is None:
            continue
        fns = [w]
        # helpers the wrapper hands its positional tuple to
        wfi = sp.wrapper_fi
        if w.args.vararg is not None and wfi is not None:  # type: ignore[attr-defined]
            for c in ast.walk(w):
                if isinstance(c, ast.Call) and any((isinstance(x, ast.Name) and x.id == w.args.vararg.arg) or (isinstance(x, ast.Starred) and isinstance(x.value, ast.Name) and x.value.id == w.args.vararg.arg) for x in c.args):  # type: ignore[attr-defined]
                    g = idx.resolve_func(sp.module, call_name(c) or "", cls=sp.cls, scope=wfi)
                    if g is not None:
                        fns.append(g.node)
        orig, err = library_object(sp.target, sp.attr)
        try:
            osig = sig_from_inspect(inspect.signature(orig)) if orig is not None else None
        except (TypeError, ValueError):
            osig = None
        for fn in fns:
            if id(fn) in seen:
                continue
            seen.add(id(fn))
            for node, seq, k, min_len, offset, other in manual_positional_reads(fn):
                pos = k + offset
                key = f"{sp.fq}::positional#{pos}::manual"
                site = f"{sp.module.rel}:{node.lineno}"
                cls_name = sp.cls.name if sp.cls else "?"
                if min_len > k + 1:
                    res.violation("R-C19d", site, key, f"substitute for {sp.fq} reads `{seq}[{k}]` only when len({seq}) >= {min_len}: a call that passes exactly {pos + 1} positional arguments has its argument #{pos} silently replaced by the default", cls_name)
                    continue
                # keyword fallback name vs library parameter at that position
                kwname = None
                if other is not None:
                    for c in ast.walk(other):
                        if isinstance(c, ast.Call) and isinstance(c.func, ast.Attribute) and c.func.attr in ("pop", "get") and c.args and isinstance(c.args[0], ast.Constant) and isinstance(c.args[0].value, str):
                            kwname = c.args[0].value
                if osig is not None and kwname is not None:
                    lib_pos = osig.positional
                    if pos < len(lib_pos) and lib_pos[pos].name != kwname and not any(p.name == kwname for p in osig.params):
                        res.violation("R-C19d", site, key, f"positional argument #{pos} of {sp.fq} is `{lib_pos[pos].name}` in the library but the substitute binds it as `{kwname}`", cls_name)
                        continue
                    if pos < len(lib_pos) and lib_pos[pos].name != kwname:
                        res.violation("R-C19d", site, key, f"positional argument #{pos} of {sp.fq} is `{lib_pos[pos].name}` in the library but the substitute treats it as `{kwname}`", cls_name)
                        continue
                res.ok("R-C19d", site, key, f"`{seq}[{k}]` taken when len({seq}) > {k}" + (f", keyword fallback `{kwname}`" if kwname else ""), cls_name)


# ---------------------------------------------------------------------------------------------- R-C19e
def rule_e(res: Results, idx: Index) -> None:
    """Transformation rules (batching / jvp / transpose) that bind the plugin primitive again must hand on every
    parameter the first bind carried.  A re-bind through a *filtered* mapping (`{k: params[k] for k in WHITELIST}`) or
    with hand-picked keywords drops the others: under jax.vmap the argument is accepted and silently replaced by the
    default.  For rule factories shared by several primitives the parameters are the union of the keyword parameters of
    the plugins' abstract_eval (bind keys are a subset of those: R-C19c)."""
    res.rule("R-C19e", "re-binding transformation rules forward every parameter of the primitive", floor=3)
    n = 0
    for m in idx.product_modules():
        if "/plugins/" not in m.rel:
            continue
        for fi in m.funcs.values():
            a = fi.node.args  # type: ignore[attr-defined]
            if a.kwarg is None:
                continue
            kwname = a.kwarg.arg
            explicit_params = {x.arg for x in a.kwonlyargs} | {x.arg for x in a.args}
            binds = [c for c in walk_no_nested(fi.node) if isinstance(c, ast.Call) and isinstance(c.func, ast.Attribute) and c.func.attr == "bind" and any(k.arg is None for k in c.keywords)]
            if not binds or not any(s_ in fi.qualname.lower() or s_ in (fi.parent_func.qualname.lower() if fi.parent_func else "") for s_ in ("batch", "jvp", "transpose", "rule", "vmap")):
                continue
            du = defuse(fi.node)
            for b in binds:
                splat = next(k.value for k in b.keywords if k.arg is None)
                n += 1
                key = f"{m.rel}::{fi.qualname}::rebind::{src(splat, 30)}"
                site = f"{m.rel}:{b.lineno}"
                if isinstance(splat, ast.Name) and splat.id == kwname:
                    res.ok("R-C19e", site, key, f"`**{kwname}` is forwarded as a whole", fi.qualname)
                    continue
                # a filtered mapping: constant key universe?
                allowed: Optional[Set[str]] = None
                vals = [splat] + ([v for v in du.values(splat.id)] if isinstance(splat, ast.Name) else [])
                for v in vals:
                    if isinstance(v, ast.DictComp) and len(v.generators) == 1:
                        it = v.generators[0].iter
                        consts = None
                        if isinstance(it, (ast.Tuple, ast.List, ast.Set)) and all(isinstance(e, ast.Constant) for e in it.elts):
                            consts = {e.value for e in it.elts}
                        elif isinstance(it, ast.Name):
                            cv = fi.module.consts.get(it.id)
                            if isinstance(cv, (tuple, list, set, frozenset)):
                                consts = set(cv)
                        if consts is not None and kwname in names_in(v):
                            allowed = consts
                        elif kwname in names_in(it) and not v.generators[0].ifs:
                            allowed = None  # {k: v for k, v in params.items()}: everything
                            break
                    elif isinstance(v, ast.Dict) and all(isinstance(k_, ast.Constant) for k_ in v.keys if k_ is not None):
                        allowed = {k_.value for k_ in v.keys if k_ is not None}
                        if any(k_ is None for k_ in v.keys):
                            allowed = None
                if allowed is None:
                    if isinstance(splat, ast.Name) and any(isinstance(v, ast.Call) and (call_name(v) or "") == "dict" and kwname in names_in(v) for v in vals):
                        res.ok("R-C19e", site, key, "a copy of the whole parameter mapping is forwarded", fi.qualname)
                    else:
                        res.unresolved("R-C19e", site, key, f"`**{src(splat, 30)}`: not the rule's own **{kwname} and not a recognised filter", fi.qualname)
                    continue
                allowed |= {k.arg for k in b.keywords if k.arg}
                # which plugin primitives is this rule registered for?
                owner = fi.parent_func or fi
                needed: Set[str] = set()
                users = []
                for mod2 in idx.product_modules():
                    for c2 in ast.walk(mod2.tree):
                        if isinstance(c2, ast.Call) and (call_name(c2) or "").split(".")[-1] == owner.name and c2.args:
                            d = dotted(c2.args[0]) or ""
                            cname = d.split(".")[0]
                            cls = mod2.classes.get(cname)
                            if cls is not None:
                                ae = idx.resolve_method(cls, "abstract_eval")
                                if ae is not None:
                                    aa = ae.node.args  # type: ignore[attr-defined]
                                    ks = {x.arg for x in aa.kwonlyargs} | {x.arg for x in aa.args[1:] if x.arg not in ("self", "cls")}
                                    needed |= ks
                                    users.append(cls.name)
                missing = sorted(needed - allowed - explicit_params)
                if missing:
                    res.violation("R-C19e", site, key, f"the rule re-binds the primitive with only {sorted(allowed)} although {', '.join(users[:4])}… carry {missing} as well: under the transformation (jax.vmap) the argument is accepted and silently replaced by its default", fi.qualname)
                elif users:
                    res.ok("R-C19e", site, key, f"the filtered re-bind covers every parameter of {len(users)} primitives", fi.qualname)
                else:
                    res.unresolved("R-C19e", site, key, "filtered re-bind; the primitives using this rule were not resolved", fi.qualname)
    res.analysed["rebind_sites_in_rules"] = n


# ---------------------------------------------------------------------------------------------- R-C19g / R-C19h
# Accumulators that collect the contribution of several arguments (confirmed by reading; candidates came from "initialised
# to None, then assigned in two or more sibling conditional blocks"): (file, function, variable, what it accumulates)
ACCUMULATORS = [
    ("jax2onnx/plugins/jax/nn/dot_product_attention.py", "DotProductAttentionPlugin.lower", "mask_bool",
     "the attention mask: local_window_size, mask and the sequence lengths each contribute a factor"),
    ("jax2onnx/plugins/jax/nn/dot_product_attention.py", "DotProductAttentionPlugin.lower", "length_mask_bool",
     "the length mask: query_seq_lengths and key_value_seq_lengths each contribute a factor"),
]


def _assigns_of(n: ast.AST, v: str) -> List[ast.AST]:
    out = []
    for x in ast.walk(n):
        if isinstance(x, (ast.Assign, ast.AnnAssign)) and x.value is not None:
            ts = x.targets if isinstance(x, ast.Assign) else [x.target]
            if any(isinstance(t, ast.Name) and t.id == v for t in ts):
                out.append(x)
    return out


def rule_g(res: Results, idx: Index) -> None:
    """An accumulator that several arguments contribute to (initialised to None, extended in sibling conditional
    blocks) must never be overwritten: every definition that can follow an earlier one either reads the accumulator or
    is guarded by `<acc> is None`.  Otherwise the argument behind the earlier block is silently ignored whenever the
    argument behind the later block is given too."""
    from ..guards import path_conditions
    res.rule("R-C19g", "argument contributions collected in an accumulator are combined, never overwritten", floor=2)
    for rel, fq, var, what in ACCUMULATORS:
        f = idx.find_func(rel, fq)
        key = f"{rel}::{fq}::accumulator::{var}"
        if f is None:
            raise AnalysisError(f"accumulator anchor missing: {rel}::{fq}")
        body = f.node.body  # type: ignore[attr-defined]
        init = next((i for i, st in enumerate(body) if isinstance(st, (ast.Assign, ast.AnnAssign)) and st.value is not None and isinstance(st.value, ast.Constant) and st.value.value is None
                     and any(isinstance(t, ast.Name) and t.id == var for t in (st.targets if isinstance(st, ast.Assign) else [st.target]))), None)
        if init is None:
            # the accumulator may live one block deeper
            holder = next((blk for blk in ast.walk(f.node) for fld in ("body", "orelse") if isinstance(getattr(blk, fld, None), list) and blk is not f.node
                           and any(isinstance(st, (ast.Assign, ast.AnnAssign)) and st.value is not None and isinstance(st.value, ast.Constant) and st.value.value is None
                                   and any(isinstance(t, ast.Name) and t.id == var for t in (st.targets if isinstance(st, ast.Assign) else [st.target])) for st in getattr(blk, fld))), None)
            if holder is None:
                res.unresolved("R-C19g", f.site, key, f"`{var}` is no longer initialised to None in this function", f.qualname)
                continue
            body = next(getattr(holder, fld) for fld in ("body", "orelse") if isinstance(getattr(holder, fld, None), list) and any(_assigns_of(st, var) for st in getattr(holder, fld)))
            init = next(i for i, st in enumerate(body) if _assigns_of(st, var) and isinstance(st, (ast.Assign, ast.AnnAssign)))
        blocks = [st for st in body[init + 1:] if _assigns_of(st, var)]
        bad = []
        n_defs = 0
        for k, st in enumerate(blocks):
            for a in _assigns_of(st, var):
                n_defs += 1
                if k == 0:
                    # within the first block, later definitions may only follow earlier ones if they read them
                    earlier = [b for b in _assigns_of(st, var) if b.lineno < a.lineno]
                    if not earlier:
                        continue
                if var in names_in(a.value):  # type: ignore[attr-defined]
                    continue
                conds = path_conditions(a)

                def is_none_atom(c: ast.AST, want: bool) -> bool:
                    return isinstance(c, ast.Compare) and len(c.ops) == 1 and isinstance(c.left, ast.Name) and c.left.id == var and isinstance(c.comparators[0], ast.Constant) \
                        and c.comparators[0].value is None and ((isinstance(c.ops[0], ast.Is) and want) or (isinstance(c.ops[0], ast.IsNot) and not want))
                if any(is_none_atom(c, w) for c, w in conds):
                    continue
                # mutually exclusive with every earlier definition (other branch of the same if)?
                prior = [b for s2 in blocks[: k + 1] for b in _assigns_of(s2, var) if b.lineno < a.lineno]
                if prior and all(_exclusive(b, a) for b in prior):
                    continue
                bad.append(a)
        if bad:
            a = bad[0]
            res.violation("R-C19g", f"{rel}:{a.lineno}", key, f"`{src(a, 60)}` replaces {what} built so far instead of combining with it: the arguments handled by the earlier blocks are silently ignored when this one is given too", f.qualname)
        elif n_defs < 2:
            res.unresolved("R-C19g", f.site, key, f"fewer than two definitions of `{var}` found", f.qualname)
        else:
            res.ok("R-C19g", f.site, key, f"{n_defs} definitions of `{var}`; each later one reads the accumulator or is guarded by `{var} is None`", f.qualname)


def _exclusive(a: ast.AST, b: ast.AST) -> bool:
    """a and b sit in different branches of one if statement"""
    from ..index import parents
    pa = list(parents(a))
    for anc in parents(b):
        if isinstance(anc, ast.If) and anc in pa:
            def side(n: ast.AST) -> Optional[str]:
                for fld in ("body", "orelse"):
                    for st in getattr(anc, fld):
                        if n is st or any(x is n for x in ast.walk(st)):
                            return fld
                return None
            sa, sb = side(a), side(b)
            return sa is not None and sb is not None and sa != sb
    return False


def rule_h(res: Results, idx: Index) -> None:
    """Within one plugin module a role name (`k_len`, `batch_size`, `num_heads` …) read from an operand's shape has to
    come from the same axis everywhere: the substitute that fills in an omitted argument and the lowering that consumes
    it must agree on the layout.  Two reads `NAME = OP.shape[i]` / `NAME = OP_shape[j]` with i != j in different
    functions (or in the same function outside an if/else alternative) contradict each other: one of them is wrong."""
    import re as _re
    res.rule("R-C19h", "a role name is read from the same axis of the same operand throughout a plugin module", floor=3)
    n = 0
    for m in idx.product_modules():
        if ".plugins." not in m.name:
            continue
        roles: Dict[Tuple[str, str], Dict[int, List[ast.Assign]]] = {}
        for node in ast.walk(m.tree):
            if isinstance(node, ast.Assign) and len(node.targets) == 1 and isinstance(node.targets[0], ast.Name) and isinstance(node.value, ast.Subscript) \
                    and isinstance(node.value.slice, ast.Constant) and isinstance(node.value.slice.value, int):
                base = dotted(node.value.value) or ""
                if not (base.endswith(".shape") or base.endswith("_shape")):
                    continue
                op = _re.sub(r"(\.shape|_shape)$", "", base)
                roles.setdefault((node.targets[0].id, op), {}).setdefault(node.value.slice.value, []).append(node)
        for (nm, op), by in sorted(roles.items()):
            if sum(len(v) for v in by.values()) < 2:
                continue
            n += 1
            key = f"{m.rel}::shape-role::{nm}::{op}"
            idxs = sorted(by)
            if len(idxs) == 1:
                res.ok("R-C19h", f"{m.rel}:{by[idxs[0]][0].lineno}", key, f"`{nm}` is axis {idxs[0]} of `{op}` at {sum(len(v) for v in by.values())} sites", "<module>")
                continue
            a, b = by[idxs[0]][0], by[idxs[1]][0]
            fa, fb = m.func_containing(a), m.func_containing(b)
            if (idxs[0] < 0) != (idxs[1] < 0):
                res.unresolved("R-C19h", f"{m.rel}:{b.lineno}", key, f"`{nm}` is read with index {idxs[0]} and with index {idxs[1]} of `{op}`: indices of different sign name the same axis for some rank only", "<module>")
                continue
            if fa is fb and _exclusive(a, b):
                res.ok("R-C19h", f"{m.rel}:{a.lineno}", key, f"`{nm}` is axis {idxs[0]} or {idxs[1]} of `{op}` in alternative branches of one if statement", "<module>")
                continue
            res.violation("R-C19h", f"{m.rel}:{b.lineno}", key, f"`{nm}` is read as `{src(a.value, 40)}` at line {a.lineno} ({fa.qualname if fa else '<module>'}) and as `{src(b.value, 40)}` at line {b.lineno} ({fb.qualname if fb else '<module>'}): "
                          "the two places disagree on the operand's layout, so a value filled in for an omitted argument means something else where it is consumed", "<module>")
    res.analysed["shape_role_names"] = n


# ---------------------------------------------------------------------------------------------- R-C19j
def _pad_reference(pw, rank):
    """jnp.pad's reading of pad_width (jax._src.numpy.lax_numpy._broadcast_to_pairs): shapes (), (1,), (2,), (1,2), (rank,2)."""
    isint = lambda v: isinstance(v, int) and not isinstance(v, bool)
    if isint(pw):
        return tuple((pw, pw) for _ in range(rank))
    t = tuple(pw)
    if len(t) == 1 and isint(t[0]):
        return tuple((t[0], t[0]) for _ in range(rank))
    if len(t) == 2 and all(isint(v) for v in t):
        return tuple((t[0], t[1]) for _ in range(rank))
    if len(t) == 1 and not isint(t[0]) and len(tuple(t[0])) == 2:
        return tuple(tuple(t[0]) for _ in range(rank))
    if len(t) == rank and all(not isint(v) and len(tuple(v)) == 2 for v in t):
        return tuple(tuple(v) for v in t)
    return None     # the library rejects the form: not an instance


def _pad_domain():
    for rank in (1, 2, 3, 4):
        yield 2, rank
        yield (3,), rank
        yield (1, 2), rank
        yield [1, 2], rank
        yield ((1, 2),), rank
        yield tuple((k + 1, k + 5) for k in range(rank)), rank
        yield [list((k + 2, k + 7)) for k in range(rank)], rank


ARG_NORMALISERS = [
    # (module, function, domain, reference, what)
    ("jax2onnx/plugins/jax/numpy/pad.py", "_normalize_pad_width", _pad_domain, _pad_reference, "jnp.pad pad_width"),
]


def rule_j(res: Results, idx: Index) -> None:
    """Pure argument normalisers are evaluated (finite-domain evaluator over the syntax tree, nothing is imported) on every
    documented form of the argument for ranks 1..4.  The normaliser may refuse a form (raise: the substitute then falls
    back to the library or the export fails loudly) but a form it accepts has to be read the way the library reads it."""
    from ..symeval import EvalRaise, Evaluator, Unsupported
    res.rule("R-C19j", "argument normalisers read every documented argument form the way the library does, or refuse it (finite-domain evaluation, ranks 1..4)", floor=20)
    n = 0
    for rel, fn, dom, ref, what in ARG_NORMALISERS:
        f = idx.find_func(rel, fn)
        if f is None:
            raise AnalysisError(f"{rel}::{fn} not found (R-C19j table is stale)")
        for arg, rank in dom():
            want = ref(arg, rank)
            if want is None:
                continue
            n += 1
            key = f"{rel}::{fn}::{what}::{arg!r}@rank{rank}"
            site = f"{rel}:{f.node.lineno}"
            try:
                got = Evaluator(idx, {}).call(f, [arg, rank])
            except EvalRaise as e:
                res.ok("R-C19j", site, key, f"refused ({getattr(e, 'name', 'error')})", f.qualname)
                continue
            except Unsupported as e:
                res.unresolved("R-C19j", site, key, f"not evaluable: {e}", f.qualname)
                continue
            except Exception as e:  # evaluator limitation, never a verdict
                res.unresolved("R-C19j", site, key, f"not evaluable: {type(e).__name__}: {e}", f.qualname)
                continue
            try:
                norm = tuple(tuple(int(v) for v in p) for p in got)
            except Exception:
                res.unresolved("R-C19j", site, key, f"result {got!r} is not a tuple of pairs", f.qualname)
                continue
            if norm == want:
                res.ok("R-C19j", site, key, f"{arg!r} -> {norm}", f.qualname)
            else:
                res.violation("R-C19j", site, key, f"{what}={arg!r} on a rank-{rank} operand is read as {norm}; the library reads it as {want}: the argument is accepted and silently re-interpreted", f.qualname)
    # the single-axis family: `_normalize_axis(axis, rank)` / `_canonical_axis(axis, rank)` siblings must all map an in-range
    # axis to axis mod rank (out-of-range axes are rejected by the library itself: not instances)
    n_ax = 0
    for m in idx.product_modules():
        if "/plugins/" not in m.rel:
            continue
        for fi in m.funcs.values():
            if fi.name not in ("_normalize_axis", "_canonical_axis") or len(fi.node.args.args) != 2:
                continue
            n_ax += 1
            key = f"{m.rel}::{fi.qualname}::axis-normaliser"
            bad = None
            unres = None
            for rank in (1, 2, 3, 4):
                for ax in range(-rank, rank):
                    try:
                        got = Evaluator(idx, {}).call(fi, [ax, rank])
                    except EvalRaise:
                        bad = bad or (ax, rank, "raises")
                        continue
                    except Exception as e:
                        unres = unres or f"{type(e).__name__}: {e}"
                        continue
                    if got != ax % rank:
                        bad = bad or (ax, rank, repr(got))
            n += 1
            if bad:
                res.violation("R-C19j", fi.site, key, f"{fi.name}({bad[0]}, {bad[1]}) gives {bad[2]}; the library reads axis {bad[0]} of a rank-{bad[1]} operand as {bad[0] % bad[1]}", fi.qualname)
            elif unres:
                res.unresolved("R-C19j", fi.site, key, f"not evaluable: {unres}", fi.qualname)
            else:
                res.ok("R-C19j", fi.site, key, "in-range axes map to axis mod rank for ranks 1..4", fi.qualname)
    res.analysed["normaliser_evaluations"] = n
    res.analysed["axis_normalisers"] = n_ax
    if n_ax < 8:
        raise AnalysisError(f"only {n_ax} single-axis normalisers found (expected >= 8)")


# ---------------------------------------------------------------------------------------------- R-C19k
# (library callable, keyword) -> why a keyword that travels through **kwargs into bind() needs no reader in the lowering
IMPLIED_KW_TABLE = {
    ("flax.nnx.dot_product_attention", "module"): ("inert", "only used to sow the attention weights for introspection; no effect on the result"),
    ("flax.nnx.dot_product_attention", "broadcast_dropout"): ("inert", "shape of the random dropout mask; a deterministic export has no dropout"),
    ("flax.nnx.dot_product_attention", "dropout_rng"): ("inert", "random key of the dropout mask"),
    ("flax.nnx.dot_product_attention", "promote_dtype"): ("undecided", "promotion hook; the default is what abstract evaluation and the lowering assume, a custom hook is applied to avals only"),
    ("jax.nn.dot_product_attention", "implementation"): ("inert", "backend selection (xla / cudnn); same function"),
    ("jax.numpy.einsum", "optimize"): ("inert", "contraction-order hint; same function"),
    ("jax.numpy.einsum", "_dot_general"): ("undecided", "private hook of jnp.einsum"),
    ("jax.numpy.einsum", "out"): ("inert", "jax.numpy accepts `out` only as None"),
}


def rule_k(res: Results, idx: Index, specs) -> None:
    """A substitute that takes **kwargs and passes them on into `<prim>.bind(**kwargs)` accepts every keyword of the
    library callable it does not name itself.  Each of those keywords ends up as an equation parameter: it is honoured only
    if the substitute handles it before binding (`kwargs.get / pop / [..]`) or the plugin's lowering reads it; otherwise
    the export computes the default behaviour whatever the caller asked for (is_causal=True exported as plain attention)."""
    from .c01 import lowering_reads
    from ..callgraph import get_callgraph
    from ..tables.inert import INERT_WRAPPER_PARAMS, INERT_PRIM_PARAMS
    res.rule("R-C19k", "keywords that reach bind() through a substitute's **kwargs are handled by the substitute or read by the lowering (or listed inert)", floor=15)
    cg = get_callgraph(idx)
    seen: Set[int] = set()
    n = 0
    for sp in specs:
        w = sp.wrapper
        if w is None or isinstance(w, ast.Lambda) or id(w) in seen or w.args.kwarg is None:
            continue
        seen.add(id(w))
        V = w.args.kwarg.arg
        du = defuse(w)
        binds = [c for c in ast.walk(w) if isinstance(c, ast.Call) and isinstance(c.func, ast.Attribute) and c.func.attr == "bind"
                 and any(k.arg is None and V in (du.closure(names_in(k.value)) | names_in(k.value)) for k in c.keywords)]
        if not binds or sp.cls is None:
            continue
        orig, err = library_object(sp.target, sp.attr)
        if orig is None:
            continue
        try:
            osig = sig_from_inspect(inspect.signature(orig))
        except (TypeError, ValueError):
            continue
        explicit = {a.arg for a in w.args.posonlyargs + w.args.args + w.args.kwonlyargs}
        opos = [p.name for p in osig.positional]
        wpos = [a.arg for a in w.args.posonlyargs + w.args.args]
        renamed = {opos[i] for i in range(min(len(opos), len(wpos))) if opos[i] != wpos[i]}   # keyword form of a renamed slot: R-C19a's business
        handled = set()
        for x in ast.walk(w):
            if isinstance(x, ast.Call) and isinstance(x.func, ast.Attribute) and x.func.attr in ("get", "pop") and isinstance(x.func.value, ast.Name) and x.func.value.id == V \
                    and x.args and isinstance(x.args[0], ast.Constant):
                handled.add(x.args[0].value)
            if isinstance(x, ast.Subscript) and isinstance(x.value, ast.Name) and x.value.id == V and isinstance(x.slice, ast.Constant):
                handled.add(x.slice.value)
            if isinstance(x, ast.Compare) and isinstance(x.left, ast.Constant) and any(isinstance(c_, ast.Name) and c_.id == V for c_ in x.comparators):
                handled.add(x.left.value)
        lower = sp.cls.methods.get("lower") or idx.resolve_method(sp.cls, "lower")
        keys: Set[str] = set()
        if lower is not None:
            keys, _esc, _n = lowering_reads(idx, cg, lower)
            keys = set(keys) | {c_.value for c_ in ast.walk(lower.node) if isinstance(c_, ast.Constant) and isinstance(c_.value, str)}
        ae = idx.resolve_method(sp.cls, "abstract_eval")
        ae_used: Set[str] = set()
        if ae is not None:
            ae_params = {a.arg for a in ae.node.args.args + ae.node.args.kwonlyargs}  # type: ignore[attr-defined]
            ae_used = ae_params & {x.id for x in ast.walk(ae.node) if isinstance(x, ast.Name) and isinstance(x.ctx, ast.Load)}
        for p in osig.params:
            if p.kind not in ("poskw", "kwonly") or p.name in explicit or p.name in renamed:
                continue
            n += 1
            key = f"{sp.fq}::{p.name}::through-kwargs"
            site = f"{sp.module.rel}:{binds[0].lineno}"
            tab = IMPLIED_KW_TABLE.get((sp.fq, p.name))
            inert = INERT_WRAPPER_PARAMS.get((sp.fq, p.name)) or INERT_WRAPPER_PARAMS.get(("*", p.name)) or (INERT_PRIM_PARAMS.get(("*", p.name)) if p.name in ("precision", "out_sharding", "sharding") else None)
            if p.name in handled:
                res.ok("R-C19k", site, key, f"handled by the substitute before binding (`{V}.get/pop('{p.name}')`)", sp.cls.name)
            elif p.name in keys:
                res.ok("R-C19k", site, key, "read by the plugin's lowering", sp.cls.name)
            elif inert:
                res.ok("R-C19k", site, key, f"inert: {inert}", sp.cls.name)
            elif p.name in ("dtype", "preferred_element_type") and p.name in ae_used:
                res.ok("R-C19k", site, key, "result-type keyword: used by abstract_eval, so it reaches the lowering through the output aval", sp.cls.name)
            elif tab and tab[0] == "inert":
                res.ok("R-C19k", site, key, f"inert: {tab[1]}", sp.cls.name)
            elif tab:
                res.unresolved("R-C19k", site, key, tab[1], sp.cls.name)
            else:
                res.violation("R-C19k", site, key, f"{sp.fq}({p.name}=…) is accepted through **{V} and bound as an equation parameter, but neither the substitute nor {sp.cls.name}.lower() reads `{p.name}`: "
                              "the export computes the default behaviour whatever value the caller passes", sp.cls.name)
    res.analysed["keywords_through_kwargs"] = n


# ---------------------------------------------------------------------------------------------- R-C19l
def rule_l(res: Results, idx: Index, specs) -> None:
    """Where both the library callable and its substitute give a parameter a default, a call that omits the argument has to
    mean the same in both.  Compared are literal defaults of the substitute with the library's: equal; or both "off" values of
    a flag (None / False); or the substitute rejects every value but its default (`if p is not <default>: raise`).  A library
    default that is a private sentinel object means "argument not given" and makes an explicit None a VALUE (eqx LayerNorm
    returns `(out, state)` for `state=None`): the substitute may not use None for it."""
    res.rule("R-C19l", "defaults of a substitute mean what the library's defaults mean (omitted arguments are read alike)", floor=150)
    seen: Set[int] = set()
    n = 0
    for sp in specs:
        w = sp.wrapper
        if w is None or isinstance(w, ast.Lambda) or id(w) in seen or sp.target is None or sp.attr is None:
            continue
        seen.add(id(w))
        orig, err = library_object(sp.target, sp.attr)
        if orig is None:
            continue
        try:
            sig = inspect.signature(orig)
        except (TypeError, ValueError):
            continue
        a = w.args
        pos = a.posonlyargs + a.args
        defs = dict(zip([p_.arg for p_ in pos][len(pos) - len(a.defaults):], a.defaults))
        defs.update({p_.arg: d for p_, d in zip(a.kwonlyargs, a.kw_defaults) if d is not None})
        for name, p_ in sig.parameters.items():
            if p_.default is inspect._empty or name not in defs:
                continue
            n += 1
            key = f"{sp.fq}::{name}::default"
            site = f"{sp.module.rel}:{w.lineno}"
            cls_name = sp.cls.name if sp.cls else "?"
            d = defs[name]
            try:
                dv = ast.literal_eval(d)
                literal = True
            except Exception:
                dv, literal = None, False
            od = p_.default
            simple = isinstance(od, (type(None), bool, int, float, str, tuple))
            # does the substitute refuse every value but its default?
            rejects = any(isinstance(t, ast.If) and any(isinstance(x, ast.Raise) for x in ast.walk(t)) and any(isinstance(c, ast.Compare) and isinstance(c.left, ast.Name) and c.left.id == name
                          and isinstance(c.ops[0], (ast.IsNot, ast.NotEq)) for c in ast.walk(t.test)) for t in ast.walk(w))
            if not literal:
                res.unresolved("R-C19l", site, key, f"substitute default `{src(d, 30)}` is an expression (library: {od!r})", cls_name) if simple and od is None else res.ok("R-C19l", site, key, f"non-literal default `{src(d, 30)}`", cls_name)
            elif simple and (dv == od and type(dv) is type(od)):
                res.ok("R-C19l", site, key, f"default {od!r} in both", cls_name)
            elif simple and not dv and not od and isinstance(dv, (type(None), bool)) and isinstance(od, (type(None), bool)):
                res.ok("R-C19l", site, key, f"{od!r} / {dv!r}: both switch the option off", cls_name)
            elif rejects:
                res.ok("R-C19l", site, key, f"library default {od!r}, substitute default {dv!r}; the substitute rejects every other value", cls_name)
            elif not simple and type(od) is object and dv is None:
                res.violation("R-C19l", site, key, f"{sp.fq}: the library's default for `{name}` is a private sentinel (argument not given), so an explicit `{name}=None` is a value; the substitute's default is None "
                              "and it cannot tell the two apart (eqx.nn.LayerNorm()(x, None) returns (out, None) in the library, the bare array while traced)", cls_name)
            elif not simple:
                res.ok("R-C19l", site, key, f"library default {od!r} is not a plain constant (enum / object); substitute default {dv!r}", cls_name)
            else:
                res.violation("R-C19l", site, key, f"{sp.fq}: omitting `{name}` means {od!r} in the library and {dv!r} in the substitute", cls_name)
    res.analysed["defaults_compared"] = n


# ---------------------------------------------------------------------------------------------- R-C19m
def rule_m(res: Results, idx: Index, specs) -> None:
    """A substitute that takes a keyword out of its **kwargs by name (`v = kwargs.pop("inputs_v", None)`) has accepted that
    argument: the fall-back for unknown keywords no longer sees it.  The value then has to reach the computation.  A local
    that is only looked at in tests whose bodies raise (validation copied from the library) or in the raise itself is an
    argument accepted and ignored: `m(q, inputs_k=k, inputs_v=v)` exported attention(q, k, k)."""
    res.rule("R-C19m", "values a substitute takes out of **kwargs by name reach the computation (not only validation)", floor=20)
    seen: Set[int] = set()
    n = 0
    for sp in specs:
        w = sp.wrapper
        if w is None or isinstance(w, ast.Lambda) or id(w) in seen or w.args.kwarg is None:
            continue
        seen.add(id(w))
        V = w.args.kwarg.arg
        cls_name = sp.cls.name if sp.cls else "?"
        for st in ast.walk(w):
            if not (isinstance(st, ast.Assign) and len(st.targets) == 1 and isinstance(st.targets[0], ast.Name)):
                continue
            v = st.value
            k = None
            if isinstance(v, ast.Call) and isinstance(v.func, ast.Attribute) and v.func.attr in ("pop", "get") and isinstance(v.func.value, ast.Name) and v.func.value.id == V and v.args and isinstance(v.args[0], ast.Constant):
                k = v.args[0].value
            elif isinstance(v, ast.Subscript) and isinstance(v.value, ast.Name) and v.value.id == V and isinstance(v.slice, ast.Constant):
                k = v.slice.value
            if not isinstance(k, str):
                continue
            N = st.targets[0].id
            n += 1
            key = f"{sp.fq}::{k}::taken-from-kwargs"
            site = f"{sp.module.rel}:{st.lineno}"
            uses = 0
            checks = 0
            for x in ast.walk(w):
                if not (isinstance(x, ast.Name) and x.id == N and isinstance(x.ctx, ast.Load) and getattr(x, "lineno", 0) >= st.lineno and x is not st.targets[0]):
                    continue
                validation = False
                cur = x
                for p_ in parents(x):
                    if isinstance(p_, ast.Raise):
                        validation = True
                        break
                    if isinstance(p_, ast.If) and any(cur is t or cur in list(ast.walk(p_.test)) for t in [p_.test]):
                        body_raises = bool(p_.body) and all(isinstance(b, (ast.Raise, ast.Expr, ast.Pass)) for b in p_.body) and any(isinstance(b, ast.Raise) for b in p_.body) and not p_.orelse
                        validation = body_raises
                        break
                    if isinstance(p_, (ast.FunctionDef, ast.AsyncFunctionDef, ast.Lambda)) and p_ is w:
                        break
                if validation:
                    checks += 1
                else:
                    uses += 1
            if uses:
                res.ok("R-C19m", site, key, f"`{N}` (keyword `{k}`) is used {uses} time(s) beyond validation", cls_name)
            elif v.func.attr == "get" if isinstance(v, ast.Call) else False:
                # .get leaves the keyword in **kwargs: it still travels on with the rest
                res.ok("R-C19m", site, key, f"`{k}` is only inspected; it stays in **{V}", cls_name)
            else:
                res.violation("R-C19m", site, key, f"{sp.fq}: the substitute takes `{k}` out of **{V} into `{N}` and then only validates it ({checks} test(s) that raise): the value never reaches the computation, "
                              f"and because the keyword is removed the fall-back for unknown keywords no longer handles it — the argument is accepted and ignored", cls_name)
    res.analysed["keywords_taken_from_kwargs"] = n
