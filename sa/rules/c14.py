"""C14 — export is deterministic and independent of history (structural part).

R-C14a  results of id() / hash() never flow into value names, node or graph attributes, metadata,
        sort keys or emission order (dictionary keys, equality tests and debug output are fine)
R-C14b  every iteration over a hash-ordered collection (set / frozenset, incl. list(S), S.pop())
        on the export path has an order-insensitive body: no name allocation, no node emission or
        insertion, no append to a list whose order is observed later, no element selection by break
R-C14c  plugin discovery that decides the order of overlapping tracing patches enumerates files in a
        sorted order
R-C14d  counters that feed value / function names live on per-conversion objects (created by
        _create_ir_context / IRBuilder.__init__), never in module-level mutable state
"""
from __future__ import annotations

import ast
from typing import Dict, List, Optional, Set, Tuple

from ..flow import defuse, names_in
from ..guards import path_conditions, src
from ..index import AnalysisError, FuncInfo, Index, Module, call_name, dotted, enclosing_stmt, parents, walk_no_nested
from ..report import Results
from ..settypes import ORDER_FIXING, SetIteration, SetTyper, set_iterations

# modules that are not on the export path (reason each)
OFF_PATH = {
    "jax2onnx/utils/parameter_validation.py": "stand-alone model validation helper; no caller inside the package",
    "jax2onnx/plugins/_post_check_onnx_graph.py": "test-time structural expectation helper (expect_graph); runs after export on the finished model",
    "jax2onnx/utils/debug.py": "debug dump helpers",
    "jax2onnx/_deployment_report.py": "report generation after export",
}
NAME_SINK_CALLS = {"fresh_name", "_fresh_name", "rename_values"}
ORDER_INSENSITIVE_LIST_USES = {"remove", "set", "frozenset", "sorted", "len", "any", "all", "sum", "min", "max", "update", "difference_update", "extend"}


def _export_mods(idx: Index) -> List[Module]:
    out = []
    for m in idx.product_modules():
        if m.rel in OFF_PATH or m.rel.endswith("test_utils.py"):
            continue
        out.append(m)
    return out


# ---------------------------------------------------------------------------------------------- R-C14b
def _body_nodes(si: SetIteration) -> List[ast.AST]:
    n = si.node
    if isinstance(n, (ast.For, ast.AsyncFor)):
        return [x for st in n.body for x in ast.walk(st)]
    if isinstance(n, ast.comprehension):
        comp = getattr(n, "parent", None)
        return list(ast.walk(comp)) if comp is not None else []
    return []


def classify_set_iteration(idx: Index, si: SetIteration) -> Tuple[str, str]:
    """-> (status, explanation) with status in OK / VIOLATION / UNRESOLVED"""
    n = si.node
    fi = si.func
    m = si.module
    what = src(si.iter_expr, 50)
    conds = path_conditions(n)
    # at most one element on the path?
    for e, want in conds:
        if isinstance(e, ast.Compare) and len(e.ops) == 1 and isinstance(e.left, ast.Call) and (call_name(e.left) or "") == "len" and e.left.args and ast.dump(e.left.args[0]) == ast.dump(si.iter_expr):
            c = e.comparators[0]
            if isinstance(c, ast.Constant) and isinstance(c.value, int):
                op = e.ops[0]
                if (isinstance(op, ast.Gt) and c.value <= 1 and not want) or (isinstance(op, ast.Eq) and c.value <= 1 and want) or (isinstance(op, ast.LtE) and c.value <= 1 and want) or (isinstance(op, ast.NotEq) and c.value <= 1 and not want) or (isinstance(op, ast.GtE) and c.value <= 2 and not want):
                    return "OK", f"`{what}` has at most one element on this path"
    if si.kind == "pop":
        return "VIOLATION", f"`{src(n, 50)}` selects an arbitrary element of the hash-ordered collection `{what}`"
    if si.kind == "materialize":
        par = getattr(n, "parent", None)
        # list(S) consumed by an order-insensitive call
        if isinstance(par, ast.Call) and n in par.args:
            cn = (call_name(par) or "").split(".")[-1]
            if cn in ORDER_INSENSITIVE_LIST_USES:
                return "OK", f"list({what}) is consumed by order-insensitive `{cn}(…)`"
        st = enclosing_stmt(n)
        if isinstance(st, ast.Assign) and len(st.targets) == 1 and isinstance(st.targets[0], ast.Name) and fi is not None:
            return _list_use_verdict(fi, st.targets[0].id, st, what)
        return "UNRESOLVED", f"list({what}) escapes into `{src(par, 60) if par is not None else '?'}`"
    if si.kind == "comp":
        comp = getattr(n, "parent", None)
        if isinstance(comp, (ast.SetComp,)):
            return "OK", "set comprehension: the result is itself unordered"
        par = getattr(comp, "parent", None)
        if isinstance(comp, ast.GeneratorExp) and isinstance(par, ast.Call) and (call_name(par) or "").split(".")[-1] in ORDER_FIXING:
            return "OK", f"generator consumed by order-insensitive `{call_name(par)}(…)`"
        if isinstance(comp, ast.DictComp):
            return "UNRESOLVED", "dict comprehension keeps the hash order as insertion order"
        if isinstance(par, ast.Call) and (call_name(par) or "").split(".")[-1] in ORDER_FIXING:
            return "OK", f"comprehension consumed by order-insensitive `{call_name(par)}(…)`"
        st = enclosing_stmt(n)
        if isinstance(st, ast.Assign) and len(st.targets) == 1 and isinstance(st.targets[0], ast.Name) and fi is not None:
            return _list_use_verdict(fi, st.targets[0].id, st, what)
        return "VIOLATION", f"list comprehension over `{what}` materialises the hash order"
    # ---- for loop: look for order-sensitive effects in the body
    body = _body_nodes(si)
    loopvars = names_in(n.target)  # type: ignore[attr-defined]
    reasons: List[str] = []
    unresolved: List[str] = []
    for x in body:
        if isinstance(x, ast.Call):
            cn = call_name(x) or ""
            last = cn.split(".")[-1]
            if last in NAME_SINK_CALLS or last.endswith("fresh_name") or last.startswith("fresh"):
                reasons.append(f"allocates a name (`{src(x, 50)}`, line {x.lineno})")
            elif isinstance(x.func, ast.Attribute) and x.func.attr[:1].isupper() and (dotted(x.func.value) or "").lower().endswith("builder"):
                reasons.append(f"emits a node (`{src(x, 40)}`, line {x.lineno})")
            elif last in ("insert_before", "insert_after", "add_node", "add_node_obj", "Node"):
                reasons.append(f"creates / inserts a node (`{src(x, 40)}`, line {x.lineno})")
            elif isinstance(x.func, ast.Attribute) and x.func.attr in ("append", "insert", "extend") and isinstance(x.func.value, ast.Name) and fi is not None:
                tgt = x.func.value.id
                if not _defined_inside(n, tgt):
                    st, why = _list_use_verdict(fi, tgt, n, what)
                    if st == "VIOLATION":
                        reasons.append(f"appends to `{tgt}` (line {x.lineno}) whose order is observed later: {why}")
                    elif st == "UNRESOLVED":
                        unresolved.append(f"appends to `{tgt}` (line {x.lineno}): {why}")
            elif fi is not None and cn and not isinstance(x.func, ast.Attribute):
                g = idx.resolve_func(m, cn, cls=fi.cls, scope=fi)
                if g is not None and (names_in(x) & loopvars) and _mutates_from_neighbours(g):
                    unresolved.append(f"calls {cn}() (line {x.lineno}) which rewrites element metadata from neighbouring values")
        elif isinstance(x, ast.Subscript) and isinstance(x.ctx, ast.Store) and isinstance(x.value, ast.Name) and fi is not None and not _defined_inside(n, x.value.id):
            d = x.value.id
            esc = _dict_escapes_into_model(fi, d, n)
            if esc is not None:
                reasons.append(f"inserts into dict `{d}` (line {x.lineno}) in hash order, and `{src(esc, 50)}` (line {esc.lineno}) copies that insertion order into the model (IR mappings serialise in insertion order)")
            elif _dict_iterated_later(fi, d, n):
                unresolved.append(f"inserts into dict `{d}` that is iterated later (insertion order = hash order)")
        elif isinstance(x, (ast.Break, ast.Return)):
            # selection of one element: fine when only a constant / flag leaves the loop
            if isinstance(x, ast.Return) and (x.value is None or isinstance(x.value, ast.Constant)):
                continue
            if isinstance(x, ast.Break) and _break_only_sets_flags(n, x):
                continue
            if isinstance(x, ast.Return) and x.value is not None and not (names_in(x.value) & loopvars):
                continue
            reasons.append(f"leaves the loop at the first matching element (line {x.lineno}): which element is first depends on the hash order")
    if reasons:
        return "VIOLATION", f"iteration over hash-ordered `{what}` " + "; ".join(reasons[:3])
    if unresolved:
        return "UNRESOLVED", "; ".join(unresolved[:2])
    return "OK", f"body of the loop over `{what}` has no order-sensitive effect"


def _defined_inside(loop: ast.AST, name: str) -> bool:
    for x in ast.walk(loop):
        if isinstance(x, (ast.Assign, ast.AnnAssign)) and x is not loop:
            tgts = x.targets if isinstance(x, ast.Assign) else [x.target]
            if any(isinstance(t, ast.Name) and t.id == name for t in tgts):
                return True
    return False


def _break_only_sets_flags(loop: ast.AST, brk: ast.Break) -> bool:
    blk = getattr(brk, "parent", None)
    body = getattr(blk, "body", []) if brk in getattr(blk, "body", []) else getattr(blk, "orelse", [])
    for st in body:
        if st is brk:
            continue
        if isinstance(st, ast.Assign) and isinstance(st.value, ast.Constant):
            continue
        if isinstance(st, ast.If) or isinstance(st, ast.Expr):
            continue
        return False
    return True


def _mutates_from_neighbours(g: FuncInfo) -> bool:
    """writes .shape/.type of a node output computed from the shapes of its inputs"""
    writes = any(isinstance(x, ast.Attribute) and isinstance(x.ctx, ast.Store) and x.attr in ("shape", "type", "dtype") for x in ast.walk(g.node))
    reads_inputs = any(isinstance(x, ast.Call) and (call_name(x) or "").split(".")[-1] in ("_node_inputs", "_first_input") for x in ast.walk(g.node))
    return writes and reads_inputs


_MODEL_MAPPINGS = ("opset_imports", "metadata_props", "initializers", "functions", "attributes")


def _dict_escapes_into_model(fi: FuncInfo, name: str, after: ast.AST) -> Optional[ast.AST]:
    """`<model>.opset_imports.update(d)` / `<model>.metadata_props = d` after the loop: the dict's insertion order becomes
    the order of a serialised mapping of the model."""
    for x in walk_no_nested(fi.node):
        if getattr(x, "lineno", 0) <= getattr(after, "lineno", 0):
            continue
        if isinstance(x, ast.Call) and isinstance(x.func, ast.Attribute) and x.func.attr == "update" and any(isinstance(a, ast.Name) and a.id == name for a in x.args) \
                and isinstance(x.func.value, ast.Attribute) and x.func.value.attr in _MODEL_MAPPINGS:
            return x
        if isinstance(x, ast.Assign) and isinstance(x.value, ast.Name) and x.value.id == name and any(isinstance(t, ast.Attribute) and t.attr in _MODEL_MAPPINGS for t in x.targets):
            return x
    return None


def _dict_iterated_later(fi: FuncInfo, name: str, after: ast.AST) -> bool:
    for x in walk_no_nested(fi.node):
        if isinstance(x, (ast.For, ast.comprehension)) and x is not after:
            it = x.iter
            if name in names_in(it) and getattr(x, "lineno", getattr(it, "lineno", 0)) > after.lineno:
                return True
    return False


def _list_use_verdict(fi: FuncInfo, name: str, after: ast.AST, what: str) -> Tuple[str, str]:
    """How is list `name` (filled in hash order) used after `after`?"""
    sensitive: List[str] = []
    unknown: List[str] = []
    for x in walk_no_nested(fi.node):
        if not (isinstance(x, ast.Name) and x.id == name and isinstance(x.ctx, ast.Load)):
            continue
        if getattr(x, "lineno", 0) < getattr(after, "lineno", 0):
            continue
        if any(p is after for p in parents(x)):
            continue
        par = getattr(x, "parent", None)
        if isinstance(par, ast.Call) and x in par.args:
            cn = (call_name(par) or "").split(".")[-1]
            if cn in ORDER_INSENSITIVE_LIST_USES or cn in ("isinstance", "bool", "_dbg", "print"):
                continue
            unknown.append(f"passed to {call_name(par)}() at line {par.lineno}")
            continue
        if isinstance(par, ast.Attribute) and par.attr in ("append", "extend", "add", "insert", "remove", "discard", "clear"):
            continue
        if isinstance(par, (ast.If, ast.While, ast.UnaryOp, ast.BoolOp)) or (isinstance(par, ast.Compare) and isinstance(par.ops[0], (ast.In, ast.NotIn, ast.Is, ast.IsNot, ast.Eq, ast.NotEq))):
            continue
        if isinstance(par, (ast.For, ast.comprehension)) and par.iter is x:
            sensitive.append(f"iterated in order at line {x.lineno}")
            continue
        if isinstance(par, ast.Subscript):
            sensitive.append(f"indexed at line {x.lineno}")
            continue
        if isinstance(par, ast.Return) or isinstance(par, (ast.Tuple, ast.List)):
            sensitive.append(f"returned / stored at line {x.lineno}")
            continue
        if isinstance(par, ast.keyword):
            unknown.append(f"passed as keyword `{par.arg}` at line {x.lineno}")
            continue
        unknown.append(f"used in `{src(par, 40)}` at line {x.lineno}")
    if sensitive:
        return "VIOLATION", "; ".join(sensitive[:2])
    if unknown:
        return "UNRESOLVED", "; ".join(unknown[:2])
    return "OK", f"`{name}` is only used order-insensitively"


# ---------------------------------------------------------------------------------------------- R-C14a
def rule_a(res: Results, idx: Index, mods: List[Module]) -> None:
    for m in mods:
        for n in ast.walk(m.tree):
            if not (isinstance(n, ast.Call) and (call_name(n) or "") in ("id", "hash") and len(n.args) == 1):
                continue
            fi = m.func_containing(n)
            fn = fi.qualname if fi else "<module>"
            kind = call_name(n)
            site = f"{m.rel}:{n.lineno}"
            key = f"{m.rel}::{fn}::{kind}({src(n.args[0], 30)})"
            use, detail = _taint_use(m, fi, n)
            if use == "OK":
                res.ok("R-C14a", site, key, detail, fn)
            elif use == "UNRESOLVED":
                res.unresolved("R-C14a", site, key, detail, fn)
            else:
                res.violation("R-C14a", site, key, f"{kind}() of an object {detail}: the value differs between processes (address / PYTHONHASHSEED)", fn)


def _taint_use(m: Module, fi: Optional[FuncInfo], call: ast.Call) -> Tuple[str, str]:
    """Where does the id()/hash() result go?"""
    def classify_parent(x: ast.AST) -> Optional[Tuple[str, str]]:
        par = getattr(x, "parent", None)
        if par is None:
            return ("OK", "unused")
        # dictionary / set key, membership, comparison
        if isinstance(par, ast.Subscript) and par.slice is x:
            return ("OK", "used as a dictionary key")
        if isinstance(par, ast.Compare):
            return ("OK", "used in a comparison / membership test")
        if isinstance(par, ast.Call):
            cn = (call_name(par) or "")
            last = cn.split(".")[-1]
            if last in ("add", "discard", "remove", "get", "pop", "setdefault", "__contains__") and isinstance(par.func, ast.Attribute):
                return ("OK", f"used as a key in `{src(par.func.value, 30)}.{last}`")
            if last in ("_dbg", "debug", "info", "warning", "print", "_dbg_tm", "error"):
                return ("OK", "debug output")
            if last in ("sorted", "sort", "min", "max"):
                return ("VIOLATION", f"decides an ordering (`{src(par, 50)}`)")
            if last in ("fresh_name", "Value", "val", "Node", "rename_values", "Attr", "AttrString") or ("fresh" in last and "name" in last):
                return ("VIOLATION", f"flows into a model name / attribute (`{src(par, 50)}`)")
            if last in ("str", "repr", "format", "hex"):
                return None  # keep following
            if last in ("hash", "tuple", "frozenset", "int"):
                return None
            return ("UNRESOLVED", f"passed to {cn}()")
        if isinstance(par, ast.JoinedStr) or isinstance(par, ast.FormattedValue):
            return None
        if isinstance(par, ast.keyword):
            if par.arg in ("key",):
                return ("VIOLATION", "used as a sort key")
            if par.arg in ("name", "_outputs", "doc_string"):
                return ("VIOLATION", f"flows into model `{par.arg}=`")
            return None
        if isinstance(par, (ast.Tuple, ast.List, ast.Set, ast.BinOp, ast.IfExp, ast.Starred, ast.DictComp, ast.SetComp, ast.ListComp, ast.GeneratorExp, ast.comprehension)):
            return None
        if isinstance(par, ast.Dict):
            if x in par.keys:
                return ("OK", "dictionary key")
            return None
        if isinstance(par, ast.Lambda):
            gp = getattr(par, "parent", None)
            if isinstance(gp, ast.keyword) and gp.arg == "key":
                return ("VIOLATION", "used as a sort key")
            return None
        if isinstance(par, ast.Return):
            return ("RETURN", "")
        if isinstance(par, (ast.Assign, ast.AnnAssign, ast.AugAssign)):
            return ("ASSIGN", "")
        if isinstance(par, ast.Expr):
            return ("OK", "unused")
        return None

    x: ast.AST = call
    for _ in range(12):
        r = classify_parent(x)
        if r is None:
            x = getattr(x, "parent", None)  # type: ignore[assignment]
            if x is None:
                return ("OK", "unused")
            continue
        if r[0] == "ASSIGN":
            st = getattr(x, "parent")
            tgts = st.targets if isinstance(st, ast.Assign) else [st.target]
            names = [t.id for t in tgts if isinstance(t, ast.Name)]
            if not names or fi is None:
                # stored in a subscript / attribute: a key or cache entry
                if any(isinstance(t, ast.Subscript) for t in tgts):
                    return ("OK", "stored under a key")
                return ("UNRESOLVED", "stored in an attribute")
            return _follow_local(m, fi, names[0], st)
        if r[0] == "RETURN":
            return _follow_return(m, fi)
        return r
    return ("UNRESOLVED", "expression too deep")


def _follow_local(m: Module, fi: FuncInfo, name: str, after: ast.AST, depth: int = 0) -> Tuple[str, str]:
    worst = ("OK", f"`{name}` only used as key / in comparisons")
    for x in walk_no_nested(fi.node):
        if isinstance(x, ast.Name) and x.id == name and isinstance(x.ctx, ast.Load) and x.lineno >= after.lineno:
            cur: ast.AST = x
            r = None
            for _ in range(8):
                par = getattr(cur, "parent", None)
                if par is None:
                    break
                if isinstance(par, ast.Subscript) and par.slice is cur:
                    r = ("OK", "key")
                    break
                if isinstance(par, ast.Compare):
                    r = ("OK", "comparison")
                    break
                if isinstance(par, ast.Call):
                    last = (call_name(par) or "").split(".")[-1]
                    if last in ("put",) and par.args and cur is par.args[0]:
                        r = ("OK", "registry key")
                        break
                    if last in ("add", "discard", "remove", "get", "pop", "setdefault", "append"):
                        r = ("OK", "key / member") if last != "append" else ("UNRESOLVED", f"appended to `{src(par.func.value, 30)}`")  # type: ignore[attr-defined]
                        break
                    if last in ("fresh_name", "Value", "val", "Node", "rename_values"):
                        r = ("VIOLATION", f"`{name}` flows into a model name (`{src(par, 50)}`)")
                        break
                    if last in ("sorted", "sort"):
                        r = ("VIOLATION", f"`{name}` decides an ordering")
                        break
                    if last in ("_dbg", "debug", "print", "info", "warning"):
                        r = ("OK", "debug output")
                        break
                    if last in ("str", "repr", "tuple", "hash", "int", "format", "FunctionKey", "frozenset"):
                        cur = par
                        continue
                    r = ("UNRESOLVED", f"`{name}` passed to {call_name(par)}()")
                    break
                if isinstance(par, ast.keyword) and par.arg in ("name", "_outputs", "key"):
                    r = ("VIOLATION", f"`{name}` flows into `{par.arg}=`")
                    break
                if isinstance(par, (ast.Return,)):
                    r = _follow_return(m, fi) if depth < 2 else ("UNRESOLVED", "returned")
                    break
                if isinstance(par, (ast.Assign, ast.AnnAssign)):
                    tg = par.targets if isinstance(par, ast.Assign) else [par.target]
                    if any(isinstance(t, ast.Subscript) for t in tg):
                        r = ("OK", "stored under a key / as cache entry")
                    else:
                        nm = [t.id for t in tg if isinstance(t, ast.Name)]
                        r = _follow_local(m, fi, nm[0], par, depth + 1) if nm and depth < 3 else ("UNRESOLVED", "stored")
                    break
                cur = par
            if r is None:
                continue
            if r[0] == "VIOLATION":
                return r
            if r[0] == "UNRESOLVED":
                worst = r
    return worst


def _follow_return(m: Module, fi: Optional[FuncInfo]) -> Tuple[str, str]:
    if fi is None:
        return ("UNRESOLVED", "returned from module level")
    # signature / fingerprint helpers: the result is used as a dedup key
    nm = fi.name.lower()
    if nm == "__hash__":
        return ("OK", "object hash protocol: consumed by hashed containers only")
    if any(t in nm for t in ("fingerprint", "signature", "_key", "capture", "identity", "cache")):
        return ("OK", f"returned by {fi.qualname}(): a dedup / cache key")
    return ("UNRESOLVED", f"returned by {fi.qualname}()")


# ---------------------------------------------------------------------------------------------- R-C14c / d
def rule_c(res: Results, idx: Index) -> None:
    ps = "jax2onnx/plugins/plugin_system.py"
    f = idx.func(ps, "_import_tree")
    found = False
    for n in walk_no_nested(f.node):
        if isinstance(n, ast.For):
            it = n.iter
            enumerates = [c for c in ast.walk(it) if isinstance(c, ast.Call) and (call_name(c) or "").split(".")[-1] in ("rglob", "glob", "iterdir", "listdir", "walk", "scandir")]
            if not enumerates:
                continue
            imports_in_body = any(isinstance(c, ast.Call) and (call_name(c) or "").endswith("import_module") for st in n.body for c in ast.walk(st))
            if not imports_in_body:
                continue
            found = True
            is_sorted = isinstance(it, ast.Call) and (call_name(it) or "") == "sorted"
            key = f"{ps}::_import_tree::file-scan"
            if is_sorted:
                res.ok("R-C14c", f"{ps}:{n.lineno}", key, "plugin files are imported in sorted order", f.qualname)
            else:
                res.unresolved("R-C14c", f"{ps}:{n.lineno}", key, f"plugin modules are imported in directory-enumeration order (`{src(it)}`); the order only matters where two plugins patch the same attribute "
                               "and no two-order witness with different model bytes is known", f.qualname)
    if not found:
        raise AnalysisError("_import_tree: file-system scan loop not found")


def rule_d(res: Results, idx: Index, mods: List[Module]) -> None:
    """Counters feeding names: `fresh_name` implementations must read/write only attributes of self /
    objects reachable from self; no module-level counter may be updated in a function that produces names."""
    n = 0
    for m in mods:
        globs: Set[str] = set()
        for st in m.tree.body:
            tgt = st.targets[0] if isinstance(st, ast.Assign) and len(st.targets) == 1 else getattr(st, "target", None)
            val = getattr(st, "value", None)
            if isinstance(tgt, ast.Name) and val is not None:
                if isinstance(val, (ast.Dict, ast.List, ast.Set)) or (isinstance(val, ast.Call) and (call_name(val) or "").split(".")[-1] in ("dict", "list", "set", "defaultdict", "count", "Counter", "OrderedDict")) or (isinstance(val, ast.Constant) and isinstance(val.value, int) and not isinstance(val.value, bool)):
                    globs.add(tgt.id)
        if not globs:
            continue
        for fi in m.funcs.values():
            du = defuse(fi.node)
            local = {k for k, ds in du.defs.items() if any(d.kind != 'setitem' for d in ds)}
            written: Set[str] = set()
            decl_global = {nm for x in walk_no_nested(fi.node) if isinstance(x, ast.Global) for nm in x.names}
            for x in walk_no_nested(fi.node):
                if isinstance(x, (ast.Assign, ast.AugAssign)):
                    tgts = x.targets if isinstance(x, ast.Assign) else [x.target]
                    for t in tgts:
                        if isinstance(t, ast.Subscript) and isinstance(t.value, ast.Name) and t.value.id in globs and t.value.id not in local:
                            written.add(t.value.id)
                        if isinstance(t, ast.Name) and t.id in decl_global and t.id in globs:
                            written.add(t.id)
                if isinstance(x, ast.Call) and isinstance(x.func, ast.Attribute) and x.func.attr in ("append", "add", "update", "setdefault", "pop", "clear") and isinstance(x.func.value, ast.Name) and x.func.value.id in globs and x.func.value.id not in local:
                    written.add(x.func.value.id)
            if not written:
                continue
            # does a value read from the written global reach a name sink in this function?
            for gname in sorted(written):
                n += 1
                fwd = du.forward({gname})
                sink = None
                for c in walk_no_nested(fi.node):
                    if isinstance(c, ast.Call):
                        last = (call_name(c) or "").split(".")[-1]
                        if last in ("fresh_name", "Value", "val", "Node", "rename_values", "Function") or any(k.arg in ("name", "_outputs") for k in c.keywords):
                            argn: Set[str] = set()
                            for a in list(c.args) + [k.value for k in c.keywords]:
                                argn |= names_in(a)
                            if argn & fwd:
                                sink = c
                                break
                    if isinstance(c, ast.Return) and c.value is not None and (names_in(c.value) & fwd) and any(t in fi.name.lower() for t in ("name", "fresh", "unique")):
                        sink = c
                        break
                key = f"{m.rel}::{fi.qualname}::{gname}"
                site = f"{m.rel}:{fi.node.lineno}"
                if sink is not None:
                    res.violation("R-C14d", f"{m.rel}:{sink.lineno}", key, f"module-level mutable `{gname}` is updated in {fi.qualname}() and a value derived from it reaches a model name (`{src(sink, 60)}`): "
                                  "names depend on earlier conversions in the same process", fi.qualname)
                else:
                    res.ok("R-C14d", site, key, f"process-wide `{gname}` is updated here but nothing derived from it reaches a name", fi.qualname)
    res.analysed["module_state_writers"] = n


def rule_e(res: Results, idx: Index, mods: List[Module]) -> None:
    """Process-wide markers that steer lowering (ContextVars consulted in a test) must be restored on every exit,
    otherwise a conversion that fails half-way changes what later identical requests export."""
    from .c13 import Mut, _guard_like_contextvars, _idiom_two, _in_block
    for m in mods:
        cvs = _guard_like_contextvars(m)
        if not cvs:
            continue
        for fi in m.funcs.values():
            tries = [t for t in walk_no_nested(fi.node) if isinstance(t, ast.Try) and t.finalbody]
            sets = [n for n in walk_no_nested(fi.node) if isinstance(n, ast.Call) and isinstance(n.func, ast.Attribute) and n.func.attr == "set" and isinstance(n.func.value, ast.Name) and n.func.value.id in cvs]
            for i, n in enumerate(sorted(sets, key=lambda x: x.lineno)):
                var = n.func.value.id  # type: ignore[attr-defined]
                key = f"{m.rel}::{fi.qualname}::{var}::set#{i}"
                site = f"{m.rel}:{n.lineno}"
                if any(_in_block(n, t.finalbody) for t in tries):
                    res.ok("R-C14e", site, key, "restore inside finally", fi.qualname)
                    continue
                rts = [t for t in tries if any(isinstance(x, ast.Call) and isinstance(x.func, ast.Attribute) and x.func.attr in ("set", "reset") and isinstance(x.func.value, ast.Name) and x.func.value.id == var
                                               for st in t.finalbody for x in ast.walk(st))]
                if any(_in_block(n, t.body) for t in rts) or _idiom_two(Mut(n, "contextvar", var), rts):
                    res.ok("R-C14e", site, key, f"{var} is reset by a finally on every exit", fi.qualname)
                else:
                    res.violation("R-C14e", site, key, f"the process-wide marker {var} is set but not reset on exceptional exits: after a conversion that fails here, later identical requests take a different lowering path "
                                  "(the marker is consulted to decide whether a call is re-bound or inlined)", fi.qualname)


def run(res: Results, idx: Index, tier: str) -> None:
    res.rule("R-C14e", "process-wide markers consulted by the lowering are reset on every exit (history independence after failed conversions)", floor=2)
    res.rule("R-C14a", "id()/hash() results are used only as keys / in comparisons, never in names, attributes or orderings", floor=15)
    res.rule("R-C14b", "iteration over set / frozenset on the export path has an order-insensitive body", floor=10)
    res.rule("R-C14c", "plugin discovery order is canonical where it can matter", floor=1)
    res.rule("R-C14d", "module-level mutable state written on the export path never reaches a model name", floor=5)
    res.assumptions += ["set typing is syntactic (constructors, annotations, helper return annotations) in the quick tier; the thorough tier cross-checks with mypy-inferred types",
                        "byte identity itself, onnx_ir passes and protobuf serialisation are not decided",
                        "off-path modules: " + "; ".join(f"{k} ({v})" for k, v in OFF_PATH.items())]
    mods = _export_mods(idx)
    res.analysed["export_path_modules"] = len(mods)
    rule_a(res, idx, mods)
    sites = list(set_iterations(idx, mods))
    res.analysed["set_iteration_sites"] = len(sites)
    seen_keys: Dict[str, int] = {}
    for si in sites:
        fn = si.func.qualname if si.func else "<module>"
        base = f"{si.module.rel}::{fn}::{si.kind}::{src(si.iter_expr, 40)}"
        seen_keys[base] = seen_keys.get(base, 0) + 1
        key = f"{base}#{seen_keys[base]}"
        ln = getattr(si.node, "lineno", getattr(si.iter_expr, "lineno", 0))
        st, why = classify_set_iteration(idx, si)
        res.add("R-C14b", st, f"{si.module.rel}:{ln}", key, why, fn)
    if tier == "thorough":
        _mypy_crosscheck(res, idx, sites)
    rule_c(res, idx)
    rule_d(res, idx, mods)
    rule_e(res, idx, mods)
    _controls(res, idx)
    rule_f(res, idx)
    rule_g(res, idx)
    rule_h(res, idx)
    rule_i(res, idx)


def _mypy_crosscheck(res: Results, idx: Index, sites: List[SetIteration]) -> None:
    """Thorough tier: every for-loop / comprehension whose iterable mypy types as a set must already be in `sites`."""
    import os
    try:
        from mypy import build
        from mypy.options import Options
        from mypy.find_sources import create_source_list
        from mypy.config_parser import parse_config_file
        import mypy.nodes as N
    except Exception as e:  # mypy missing: say so, do not fail
        res.analysed["mypy_crosscheck"] = f"unavailable: {e}"
        return
    cwd = os.getcwd()
    os.chdir(idx.repo)
    try:
        opts = Options()
        try:
            parse_config_file(opts, lambda: None, "pyproject.toml")
        except Exception:
            pass
        opts.preserve_asts = True
        opts.export_types = True
        opts.incremental = False
        opts.cache_dir = os.devnull
        srcs = create_source_list(["jax2onnx/converter", "jax2onnx/plugins/plugin_system.py", "jax2onnx/plugins/_patching.py", "jax2onnx/user_interface.py", "jax2onnx/ir_utils.py"], opts)
        result = build.build(srcs, opts)
    finally:
        os.chdir(cwd)
    known = {(s.module.name, getattr(s.node, "lineno", getattr(s.iter_expr, "lineno", 0))) for s in sites}
    known_lines = {(s.module.name, s.iter_expr.lineno) for s in sites} | known
    found = []

    def walk(node, seen, mod):
        if node is None or id(node) in seen:
            return
        seen.add(id(node))
        if isinstance(node, N.ForStmt):
            found.append((mod, node.line, str(result.types.get(node.expr))))
        if isinstance(node, (N.GeneratorExpr, N.DictionaryComprehension)):
            for seq in node.sequences:
                found.append((mod, seq.line, str(result.types.get(seq))))
        for attr in ("defs", "body", "else_body", "expr", "items", "func", "callee", "args", "left", "right", "operands", "rvalue", "lvalues", "handlers", "finally_body", "generator", "left_expr", "sequences", "condlists", "indices", "base", "index", "target", "init"):
            try:
                v = getattr(node, attr, None)
            except Exception:
                continue
            if isinstance(v, N.Node):
                walk(v, seen, mod)
            elif isinstance(v, (list, tuple)):
                for x in v:
                    if isinstance(x, N.Node):
                        walk(x, seen, mod)
                    elif isinstance(x, (list, tuple)):
                        for y in x:
                            if isinstance(y, N.Node):
                                walk(y, seen, mod)
    for mod, f in result.files.items():
        if mod.startswith("jax2onnx"):
            walk(f, set(), mod)
    sets = [f for f in found if f[2].lower().startswith(("set[", "builtins.set[", "frozenset[", "builtins.frozenset[")) or "AbstractSet" in f[2]]
    missed = [f for f in sets if (f[0], f[1]) not in known_lines and not any(k[0] == f[0] and abs(k[1] - f[1]) <= 3 for k in known_lines)]
    res.analysed["mypy_crosscheck"] = {"loops_typed": len(found), "over_sets": len(sets), "missed_by_syntactic_typing": [list(x) for x in missed]}
    for mod, line, ty in missed:
        m = idx.modules.get(mod)
        rel = m.rel if m else mod
        res.unresolved("R-C14b", f"{rel}:{line}", f"{rel}::mypy-set@{ty}", f"mypy types this iterable as {ty}; the syntactic typer did not see it (loop not classified)", "")


def _controls(res: Results, idx: Index) -> None:
    import textwrap
    from ..index import Module as Mod
    src_txt = textwrap.dedent(
        '''
        from typing import Set
        def lower(ctx, names: Set[str]):
            entries = []
            for pname in names:
                entries.append({"name": pname})
            for e in entries:
                ctx.add_input(e["name"])
            seen = set()
            for n in names:
                seen.add(n)
        def lower2(ctx, nodes: Set[object]):
            for n in nodes:
                ctx.builder.Identity(n, _outputs=[ctx.fresh_name("x")])
        '''
    )
    m = Mod("<control>", "<control>", "control_c14", src_txt)
    sts = [classify_set_iteration(idx, s)[0] for s in set_iterations(idx, [m])]
    res.control("R-C14b", "append-then-iterate and emit-in-set-loop are flagged; membership-only loop is not", sts == ["VIOLATION", "OK", "VIOLATION"], str(sts))


# ---------------------------------------------------------------------------------------------- R-C14f
def rule_f(res: Results, idx: Index) -> None:
    """Once-per-process latches: a function that returns early when a module-level flag is set, and sets the flag after
    doing its work, runs its work for the first conversion only.  That is fine for process-wide set-up (registering a
    primitive, importing plugins) but not when the work is done ON an object of the current conversion (a parameter such
    as the lowering context): the second conversion gets a fresh object that never receives it, so the same request
    exports a different model later in the process."""
    res.rule("R-C14f", "once-per-process latches do not guard work done on per-conversion objects", floor=1)
    n = 0
    for m in idx.product_modules():
        if ".sandbox" in m.name:
            continue
        mod_flags = {t.id for st in m.tree.body if isinstance(st, (ast.Assign, ast.AnnAssign)) for t in (st.targets if isinstance(st, ast.Assign) else [st.target])
                     if isinstance(t, ast.Name) and isinstance(getattr(st, "value", None), ast.Constant) and getattr(st, "value").value in (False, None)}
        for fi in m.funcs.values():
            globs = {nm for g in walk_no_nested(fi.node) if isinstance(g, ast.Global) for nm in g.names} & mod_flags
            if not globs:
                continue
            for flag in sorted(globs):
                early = [st for st in fi.node.body if isinstance(st, ast.If) and isinstance(st.test, ast.Name) and st.test.id == flag and any(isinstance(x, ast.Return) for x in st.body)]  # type: ignore[attr-defined]
                sets = [st for st in walk_no_nested(fi.node) if isinstance(st, ast.Assign) and any(isinstance(t, ast.Name) and t.id == flag for t in st.targets) and isinstance(st.value, ast.Constant) and st.value.value is True]
                if not early or not sets:
                    continue
                n += 1
                a = fi.node.args  # type: ignore[attr-defined]
                params = {x.arg for x in a.posonlyargs + a.args + a.kwonlyargs} - {"self", "cls"}
                du = defuse(fi.node)
                # work done on a parameter object: method calls / attribute stores / registrations through it
                touched = set()
                for x in walk_no_nested(fi.node):
                    if isinstance(x, ast.Call):
                        f_ = x.func
                        recv = None
                        if isinstance(f_, ast.Attribute):
                            recv = f_.value
                        elif isinstance(f_, ast.Name):
                            # bound method fetched with getattr(param, "name") and called later
                            for v in du.values(f_.id):
                                if isinstance(v, ast.Call) and (call_name(v) or "") == "getattr" and v.args:
                                    recv = v.args[0]
                        if recv is not None and (names_in(recv) & params):
                            touched |= names_in(recv) & params
                    if isinstance(x, ast.Call) and (call_name(x) or "") == "setattr" and x.args and (names_in(x.args[0]) & params):
                        touched |= names_in(x.args[0]) & params
                key = f"{m.rel}::{fi.qualname}::latch::{flag}"
                site = f"{m.rel}:{early[0].lineno}"
                if touched:
                    res.violation("R-C14f", site, key, f"`{fi.name}` does its work on its argument {sorted(touched)} but is latched by the process-wide flag `{flag}`: only the first conversion's object receives it, so the same export request yields a different model the second time", fi.qualname)
                else:
                    res.ok("R-C14f", site, key, f"`{flag}` guards process-wide set-up only", fi.qualname)
    res.analysed["process_wide_latches"] = n
    import textwrap
    from ..index import Module as Mod
    cm = Mod("<control>", "<control>", "control_c14f", textwrap.dedent("""
        _DONE = False
        def ensure(ctx):
            global _DONE
            if _DONE:
                return
            register = getattr(ctx, "register", None)
            register("x")
            _DONE = True
    """))
    tmp = Results("C14", "quick")
    tmp.rule("R-C14f", "x", floor=0)
    # reuse the loop above on the control module
    f = cm.funcs["ensure"]
    du = defuse(f.node)
    got = any(isinstance(v, ast.Call) and (call_name(v) or "") == "getattr" for v in du.values("register"))
    res.control("R-C14f", "a latch whose guarded body calls a method fetched from the parameter is recognised", got, "")


# ---------------------------------------------------------------------------------------------- R-C14g
_LOSSY_ATTRS = {"__code__", "__name__", "__qualname__", "__module__", "__class__", "__func__", "__wrapped__", "__doc__"}


def _occurrence_kind(idx: Index, m, n: ast.Name, depth: int = 0) -> str:
    """How one occurrence of a parameter name is consumed: 'lossy:<what>' (only a projection that different objects can
    share is taken) or 'whole'."""
    par = getattr(n, "parent", None)
    if isinstance(par, ast.Attribute) and par.value is n and par.attr in _LOSSY_ATTRS:
        return f"lossy:`.{par.attr}`"
    if isinstance(par, ast.Call) and n in par.args:
        cn = call_name(par) or ""
        if cn == "getattr" and par.args[0] is n and len(par.args) >= 2 and isinstance(par.args[1], ast.Constant) and par.args[1].value in _LOSSY_ATTRS:
            return f"lossy:`getattr(…, '{par.args[1].value}')`"
        if cn == "type" and len(par.args) == 1:
            return "lossy:`type(…)`"
        if cn in ("callable", "isinstance", "hasattr"):
            return "lossy:a predicate"
        g = idx.resolve_func(m, cn) if cn and depth < 2 else None
        if g is not None:
            pos = par.args.index(n)
            gp = [a.arg for a in g.node.args.posonlyargs + g.node.args.args]  # type: ignore[attr-defined]
            if gp and gp[0] in ("self", "cls") and "." in cn:
                gp = gp[1:]
            if pos < len(gp):
                gdu = defuse(g.node)
                kinds = []
                gm = idx.modules.get(g.module) if hasattr(g, "module") and isinstance(getattr(g, "module", None), str) else m
                for r in walk_no_nested(g.node):
                    if isinstance(r, ast.Return) and r.value is not None:
                        exprs = [r.value] + [d.value for nm in gdu.closure(names_in(r.value)) for d in gdu.defs.get(nm, []) if d.value is not None]
                        for e in exprs:
                            for x in ast.walk(e):
                                if isinstance(x, ast.Name) and x.id == gp[pos] and isinstance(x.ctx, ast.Load):
                                    kinds.append(_occurrence_kind(idx, gm or m, x, depth + 1))
                if kinds and all(k.startswith("lossy") for k in kinds):
                    return kinds[0] + f" inside {g.qualname}()"
                if not kinds:
                    return "lossy:nothing at all"
    return "whole"


def _lossy_key_params(idx: Index, m, fi, du, key_e: ast.AST, w: ast.Assign, tname: str, cands) -> list:
    out = []
    nested = {n.name: n for n in ast.walk(fi.node) if isinstance(n, (ast.FunctionDef, ast.AsyncFunctionDef, ast.Lambda)) and n is not fi.node and hasattr(n, "name")}

    def exprs_of(root: ast.AST, skip_table_reads: bool) -> list:
        names = du.closure(names_in(root)) | names_in(root)
        ex = [root]
        for nm in names:
            for d in du.defs.get(nm, []):
                if d.value is None:
                    continue
                if skip_table_reads and any(isinstance(x, ast.Name) and x.id == tname for x in ast.walk(d.value)):
                    continue
                ex.append(d.value)
            if nm in nested:
                ex.append(nested[nm])
        return ex
    kex = exprs_of(key_e, False)
    vex = exprs_of(w.value, True)
    # names reachable from the value through nested functions' free variables
    more = []
    for e in vex:
        if isinstance(e, (ast.FunctionDef, ast.AsyncFunctionDef)):
            for x in ast.walk(e):
                if isinstance(x, ast.Name) and x.id in nested and nested[x.id] is not e:
                    more.append(nested[x.id])
    vex += more
    for p_ in sorted(cands):
        kk = [_occurrence_kind(idx, m, x) for e in kex for x in ast.walk(e) if isinstance(x, ast.Name) and x.id == p_ and isinstance(x.ctx, ast.Load)]
        if not kk or not all(k.startswith("lossy") for k in kk):
            continue
        vk = [_occurrence_kind(idx, m, x) for e in vex for x in ast.walk(e) if isinstance(x, ast.Name) and x.id == p_ and isinstance(x.ctx, ast.Load)
              and not any(x in list(ast.walk(k_)) for k_ in kex)]
        if any(k == "whole" for k in vk):
            out.append((p_, kk[0].split(":", 1)[1]))
    return out


def _rule_j_instance(res: Results, idx: Index, m, fi, du, w: ast.Assign, tname: str, params: Set[str]) -> None:
    key_e = w.targets[0].slice  # type: ignore[attr-defined]
    key_deps = (du.closure(names_in(key_e)) | names_in(key_e)) & params
    lossy = _lossy_key_params(idx, m, fi, du, key_e, w, tname, key_deps)
    if not lossy:
        # a helper that names classes and functions by `__module__` / `__name__` (and falls back to repr() for other objects) is
        # name-derived for everything that can be decorated
        kex = [key_e] + [d.value for nm in du.closure(names_in(key_e)) for d in du.defs.get(nm, []) if d.value is not None]
        for e in kex:
            for c in ast.walk(e):
                if isinstance(c, ast.Call):
                    hit = [a.id for a in c.args if isinstance(a, ast.Name) and a.id in key_deps]
                    g = idx.resolve_func(m, call_name(c) or "") if hit else None
                    if g is not None and any(isinstance(x, ast.Attribute) and x.attr in ("__name__", "__qualname__") for x in ast.walk(g.node)):
                        lossy = [(hit[0], f"its `__name__` (inside {g.qualname}())")]
    if not lossy:
        return
    p0, how = lossy[0]
    key = f"{m.rel}::{fi.qualname}::registry-reuse::{tname}"
    site = f"{m.rel}:{w.lineno}"
    checks = [c for c in walk_no_nested(fi.node) if isinstance(c, ast.Compare) and len(c.ops) == 1 and isinstance(c.ops[0], (ast.Is, ast.IsNot, ast.Eq, ast.NotEq))
              and ((isinstance(c.left, ast.Name) and c.left.id == p0 and isinstance(c.comparators[0], ast.Attribute)) or (isinstance(c.comparators[0], ast.Name) and c.comparators[0].id == p0 and isinstance(c.left, ast.Attribute)))]
    if checks:
        res.ok("R-C14j", site, key, f"the entry found under the name-derived key is compared with `{p0}` (`{src(checks[0], 50)}`) before it is reused", fi.qualname)
    else:
        res.violation("R-C14j", site, key, f"`{tname}` is keyed by `{src(key_e, 30)}`, which sees `{p0}` only through {how}; an entry found under that key is reused without comparing the object it was created for with `{p0}`: "
                      "a second, different object of the same name silently gets the first one's entry (its own registration is dropped), so the export of one and the same request depends on what was decorated earlier in the process", fi.qualname)


def rule_g(res: Results, idx: Index) -> None:
    """A module-level memo table makes a later request depend on earlier ones unless its key determines the memoised value.
    For every function that both reads (`M.get(K)`, `M[K]`, `K in M`) and writes (`M[K] = V`) a module-level mapping, every
    PARAMETER of the function that V is computed from must also be something K is computed from.  A parameter that flows
    into the value but not into the key is answered from the first call for every later call that differs only there
    (an abstract-eval memo that forgot `promote_integers` returned the promoted dtype for the unpromoted call)."""
    res.rule("R-C14g", "memo tables are keyed by every parameter the memoised value depends on", floor=1)
    res.rule("R-C14j", "a registry entry found under a name-derived key is reused only after comparing the object it was created for with the new one", floor=1)
    n = 0
    for m in idx.product_modules():
        tables: Set[str] = set()
        for st in m.tree.body:
            if isinstance(st, (ast.Assign, ast.AnnAssign)) and st.value is not None:
                v = st.value
                if (isinstance(v, ast.Dict) and not v.keys) or (isinstance(v, ast.Call) and (dotted(v.func) or "").split(".")[-1] in ("dict", "OrderedDict", "WeakValueDictionary", "WeakKeyDictionary", "defaultdict", "LRUCache")):
                    for t in (st.targets if isinstance(st, ast.Assign) else [st.target]):
                        if isinstance(t, ast.Name):
                            tables.add(t.id)
        if not tables:
            continue
        for fi in m.funcs.values():
            du = defuse(fi.node)
            a = fi.node.args  # type: ignore[attr-defined]
            params = {x.arg for x in a.posonlyargs + a.args + a.kwonlyargs} - {"self", "cls"}
            if a.kwarg is not None:
                params.add(a.kwarg.arg)
            for tname in sorted(tables):
                writes = [x for x in walk_no_nested(fi.node) if isinstance(x, ast.Assign) and isinstance(x.targets[0], ast.Subscript) and isinstance(x.targets[0].value, ast.Name) and x.targets[0].value.id == tname]
                reads = [x for x in walk_no_nested(fi.node) if (isinstance(x, ast.Call) and isinstance(x.func, ast.Attribute) and x.func.attr in ("get", "pop") and isinstance(x.func.value, ast.Name) and x.func.value.id == tname)
                         or (isinstance(x, ast.Subscript) and isinstance(x.value, ast.Name) and x.value.id == tname and isinstance(x.ctx, ast.Load))]
                if not writes or not reads:
                    continue
                # a memo answers from the table: some return value derives from a read of it (registries that only test for
                # presence before adding an entry are not memos)
                read_ids = {id(r) for r in reads}
                hit_names = {nm for nm, ds in du.defs.items() for d in ds if d.value is not None and any(id(x) in read_ids for x in ast.walk(d.value))}
                answers = False
                for r in walk_no_nested(fi.node):
                    if isinstance(r, ast.Return) and r.value is not None:
                        if any(id(x) in read_ids for x in ast.walk(r.value)) or ((du.closure(names_in(r.value)) | names_in(r.value)) & hit_names):
                            answers = True
                if not answers:
                    continue
                from .c13 import _only_called_at_decoration
                if _only_called_at_decoration(idx, fi) or fi.name in ("onnx_function", "register_primitive", "register_example"):
                    # registration tables filled when the user decorates something are not memos of export results; but an entry
                    # found under a NAME-derived key and reused for another object makes later exports depend on what was
                    # decorated before (R-C14j): the reuse path has to compare the recorded object with the new one
                    _rule_j_instance(res, idx, m, fi, du, writes[0], tname, params)
                    continue
                n += 1
                w = writes[0]
                key_e = w.targets[0].slice
                key_deps = (du.closure(names_in(key_e)) | names_in(key_e)) & params
                val_deps = (du.closure(names_in(w.value)) | names_in(w.value)) & params
                # names the value depends on only through the key itself do not count
                missing = sorted(val_deps - key_deps)
                key = f"{m.rel}::{fi.qualname}::memo::{tname}"
                site = f"{m.rel}:{w.lineno}"
                lossy = [] if missing else _lossy_key_params(idx, m, fi, du, key_e, w, tname, params & key_deps)
                if lossy:
                    p0, how = lossy[0]
                    res.violation("R-C14g", site, key, f"`{tname}[{src(key_e, 30)}] = {src(w.value, 40)}`: the key sees the parameter `{p0}` only through {how}, while the memoised value is computed from `{p0}` itself — "
                                  f"two different objects that agree on that projection (closures made by one factory, methods of two instances) share one entry, so the second request is answered with the "
                                  "first one's result: an export depends on which conversions ran before it", fi.qualname)
                elif missing:
                    res.violation("R-C14g", site, key, f"`{tname}[{src(key_e, 30)}] = {src(w.value, 40)}`: the memoised value is computed from the parameter(s) {missing}, which the key does not contain — the first call's answer is returned "
                                  "to every later call that differs only there, so an export depends on which conversions ran before it in the process", fi.qualname)
                else:
                    res.ok("R-C14g", site, key, f"key `{src(key_e, 40)}` covers the parameters the value depends on ({sorted(val_deps) or 'none'})", fi.qualname)
    res.analysed["memo_tables"] = n
    ctl_src = "C = {}\ndef f(a, b, flag=True):\n    k = (a, b)\n    hit = C.get(k)\n    if hit is not None:\n        return hit\n    out = g(a, b, flag)\n    C[k] = out\n    return out\n"
    tree = ast.parse(ctl_src)
    fn = tree.body[1]
    du = defuse(fn)
    w = [x for x in ast.walk(fn) if isinstance(x, ast.Assign) and isinstance(x.targets[0], ast.Subscript)][0]
    ps = {"a", "b", "flag"}
    miss = ((du.closure(names_in(w.value)) | names_in(w.value)) & ps) - ((du.closure(names_in(w.targets[0].slice)) | names_in(w.targets[0].slice)) & ps)
    res.control("R-C14g", "a memo keyed by (a, b) whose value also depends on `flag` is reported", miss == {"flag"}, str(sorted(miss)))


# ---------------------------------------------------------------------------------------------- R-C14h
_DICT_MUTATORS = {"pop", "update", "clear", "setdefault", "popitem"}


def _is_eqn_params_expr(e: ast.AST) -> bool:
    if isinstance(e, ast.Attribute) and e.attr == "params" and "eqn" in src(e.value, 40).lower():
        return True
    if isinstance(e, ast.Call) and (call_name(e) or "") == "getattr" and len(e.args) >= 2 and isinstance(e.args[1], ast.Constant) and e.args[1].value == "params" and "eqn" in src(e.args[0], 40).lower():
        return True
    if isinstance(e, ast.BoolOp):   # getattr(eqn, "params", {}) or {}
        return any(_is_eqn_params_expr(v) for v in e.values)
    return False


def rule_h(res: Results, idx: Index) -> None:
    """JAX caches traced equations (jit, jax.checkpoint, custom_jvp, scan bodies) and hands the SAME equation objects to a
    later trace of the same function.  The `params` dict of an equation is therefore shared across conversions: a lowering
    that deletes, pops or overwrites an entry changes what the next export of the same callable sees (after `del
    params["instance_key"]` the second export of a checkpointed @onnx_function instance used another instance's weights).
    Instances: every function that holds the equation's params (a local bound to `eqn.params` / `getattr(eqn, "params")`, or a
    plain parameter `params` next to an `eqn` parameter).  In-place mutation is allowed only after the name was re-bound to a copy."""
    res.rule("R-C14h", "lowerings never mutate an equation's params dict in place (it is shared with JAX's trace caches and so with later conversions)", floor=40)
    n = 0
    for m in idx.product_modules():
        for fi in m.funcs.values():
            a = fi.node.args  # type: ignore[attr-defined]
            plain = [x.arg for x in a.posonlyargs + a.args + a.kwonlyargs]
            held: Dict[str, List[Tuple[int, bool]]] = {}   # name -> [(line of binding, is-alias)]
            if "params" in plain and any(p_ in plain for p_ in ("eqn", "equation")):
                held.setdefault("params", []).append((fi.node.lineno, True))
            for st in walk_no_nested(fi.node):
                if isinstance(st, (ast.Assign, ast.AnnAssign)) and getattr(st, "value", None) is not None:
                    tg = st.targets if isinstance(st, ast.Assign) else [st.target]
                    for t in tg:
                        if isinstance(t, ast.Name):
                            if _is_eqn_params_expr(st.value):
                                held.setdefault(t.id, []).append((st.lineno, True))
                            elif t.id in held or t.id == "params":
                                # alias of an alias keeps the dict; anything else (dict(...), {**p}, comprehension) is a new object
                                is_alias = isinstance(st.value, ast.Name) and st.value.id in held
                                held.setdefault(t.id, []).append((st.lineno, is_alias))
            held = {k: v for k, v in held.items() if any(al for _l, al in v)}
            if not held:
                continue
            n += 1
            key = f"{m.rel}::{fi.qualname}::eqn-params"
            bad = None
            for x in walk_no_nested(fi.node):
                nm = None
                what = None
                if isinstance(x, ast.Call) and isinstance(x.func, ast.Attribute) and x.func.attr in _DICT_MUTATORS and isinstance(x.func.value, ast.Name) and x.func.value.id in held:
                    nm, what = x.func.value.id, f".{x.func.attr}(…)"
                elif isinstance(x, (ast.Assign, ast.AugAssign, ast.Delete)):
                    for t in (x.targets if not isinstance(x, ast.AugAssign) else [x.target]):
                        if isinstance(t, ast.Subscript) and isinstance(t.value, ast.Name) and t.value.id in held:
                            nm, what = t.value.id, ("del …[k]" if isinstance(x, ast.Delete) else "…[k] = v")
                if nm is None:
                    continue
                before = [(l, al) for l, al in held[nm] if l <= x.lineno]
                if before and max(before)[1]:
                    bad = bad or (x, nm, what)
            if bad is not None:
                res.violation("R-C14h", f"{m.rel}:{bad[0].lineno}", key, f"`{src(bad[0], 50)}` mutates `{bad[1]}`, which is the equation's own params dict: JAX re-uses cached equations (jax.checkpoint, jit, scan bodies) "
                              "in later traces, so the next conversion of the same callable sees the modified parameters", fi.qualname)
            else:
                res.ok("R-C14h", f"{m.rel}:{fi.node.lineno}", key, f"equation params held as {sorted(held)}: read only (or copied before modification)", fi.qualname)
    res.analysed["functions_holding_eqn_params"] = n


# ---------------------------------------------------------------------------------------------- R-C14i
def rule_i(res: Results, idx: Index) -> None:
    """`id(obj)` is unique only while obj is alive.  A WEAK-valued mapping drops the entry when obj dies, and the next object
    allocated at that address re-registers under the same key: a key that outlives its object (it travels in equation
    parameters until lowering) then resolves to the other object.  `x = Scale(2.0)(x)` with a temporary instance was lowered
    with a later instance's weight (75 instead of 30).  Keys of weak-valued module-level mappings must not be `id(...)`."""
    res.rule("R-C14i", "weak-valued module-level mappings are not keyed by id() of the stored object", floor=1)
    n = 0
    for m in idx.product_modules():
        weak: Set[str] = set()
        for st in m.tree.body:
            if isinstance(st, (ast.Assign, ast.AnnAssign)) and st.value is not None and isinstance(st.value, ast.Call) and (dotted(st.value.func) or "").split(".")[-1] == "WeakValueDictionary":
                for t in (st.targets if isinstance(st, ast.Assign) else [st.target]):
                    if isinstance(t, ast.Name):
                        weak.add(t.id)
        for tname in sorted(weak):
            for fi in m.funcs.values():
                du = None
                for w in walk_no_nested(fi.node):
                    if not (isinstance(w, ast.Assign) and isinstance(w.targets[0], ast.Subscript) and isinstance(w.targets[0].value, ast.Name) and w.targets[0].value.id == tname):
                        continue
                    n += 1
                    du = du or defuse(fi.node)
                    key_e = w.targets[0].slice
                    exprs = [key_e] + [d.value for nm in du.closure(names_in(key_e)) for d in du.defs.get(nm, []) if d.value is not None]
                    ids = [c for e in exprs for c in ast.walk(e) if isinstance(c, ast.Call) and (call_name(c) or "") == "id"]
                    key = f"{m.rel}::{fi.qualname}::weak-map-key::{tname}"
                    site = f"{m.rel}:{w.lineno}"
                    if ids:
                        res.violation("R-C14i", site, key, f"`{tname}[{src(key_e, 30)}] = {src(w.value, 30)}` keys a weak-valued mapping by `{src(ids[0], 30)}`: when the object dies its entry disappears and the "
                                      "next object at the same address takes over the key, so a key kept elsewhere (equation parameters) resolves to another object", fi.qualname)
                    else:
                        res.ok("R-C14i", site, key, f"key `{src(key_e, 40)}` is not an id()", fi.qualname)
    res.analysed["weak_map_writes"] = n
