"""C12 — layout flags only add boundary transposes (structural part).

R-C12a  permutation constants: NHWC->NCHW is (0,3,1,2), NCHW->NHWC is (0,2,3,1) and they compose to the
        identity; the input bridge transposes with NCHW->NHWC and declares the graph input with the
        NHWC->NCHW-permuted shape; the output bridge transposes with NHWC->NCHW and permutes the declared
        dims with the same constant (def-use from the constant to `perm=` / to the shape)
R-C12b  rank and index validation: `_require_4d` raises for every non-4D shape and dominates each boundary
        Transpose; `_validate_layout_indices` raises on non-integers, out-of-range and duplicate indices,
        and the bindings receive the *validated* index tuples
R-C12c  non-selected inputs / outputs take the plain path (add_input_for_invar / add_outputs_from_vars)
R-C12d  (cross references) an unused NCHW input is kept: C05 R-C05a; boundary transposes are not folded
        across observed values: C02 R-C02a
"""
from __future__ import annotations

import ast
from typing import Dict, List, Optional, Set, Tuple

from ..cfg import cfg_of
from ..flow import defuse, names_in
from ..guards import path_conditions, rejects, src
from ..index import AnalysisError, FuncInfo, Index, call_name, dotted, enclosing_stmt, fold_const, is_const, walk_no_nested
from ..report import Results

CA = "jax2onnx/converter/conversion_api.py"
REF = {"nhwc_to_nchw": (0, 3, 1, 2), "nchw_to_nhwc": (0, 2, 3, 1)}


def _perm_role(name: str) -> Optional[str]:
    n = name.upper()
    if "NHWC_TO_NCHW" in n:
        return "nhwc_to_nchw"
    if "NCHW_TO_NHWC" in n:
        return "nchw_to_nhwc"
    return None


def run(res: Results, idx: Index, tier: str) -> None:
    res.rule("R-C12a", "permutation constants are correct, inverse of each other, and used in the right direction on each bridge", floor=6)
    res.rule("R-C12b", "rank / index validation raises and dominates the boundary transposes and bindings", floor=6)
    res.rule("R-C12c", "non-selected indices take the plain binding path", floor=2)
    res.assumptions += ["numerical equality with the plain export is not decided; NCHW/NHWC axis conventions (N,C,H,W)/(N,H,W,C) are the reference"]
    m = idx.module(CA)
    perms: Dict[str, Tuple[str, Tuple[int, ...]]] = {}
    for k, v in m.consts.items():
        role = _perm_role(k)
        if role and isinstance(v, (tuple, list)):
            perms[role] = (k, tuple(v))
    if len(perms) < 2:
        raise AnalysisError("layout permutation constants not found in conversion_api.py")
    for role, (name, val) in sorted(perms.items()):
        key = f"{CA}::{name}"
        if val == REF[role]:
            res.ok("R-C12a", f"{CA}:1", key, f"{name} = {val}", "")
        else:
            res.violation("R-C12a", f"{CA}:1", key, f"{name} = {val} but {role.replace('_', ' ')} is {REF[role]}", "")
    a, b = perms["nhwc_to_nchw"][1], perms["nchw_to_nhwc"][1]
    key = f"{CA}::perm-composition"
    if len(a) == 4 and len(b) == 4 and sorted(a) == [0, 1, 2, 3] and all(a[b[i]] == i for i in range(4)):
        res.ok("R-C12a", f"{CA}:1", key, "the two permutations are inverse to each other", "")
    else:
        res.violation("R-C12a", f"{CA}:1", key, f"{a} and {b} do not compose to the identity", "")

    bi = idx.func(CA, "_LayoutAdapter.bind_input")
    bo = idx.func(CA, "_LayoutAdapter.bind_output")
    for f, want_perm, kind in ((bi, "nchw_to_nhwc", "input"), (bo, "nhwc_to_nchw", "output")):
        du = defuse(f.node)
        g = cfg_of(f.node)
        tcalls = [c for c in walk_no_nested(f.node) if isinstance(c, ast.Call) and (call_name(c) or "").endswith(".Transpose")]
        key = f"{CA}::{f.qualname}::transpose-direction"
        if not tcalls:
            res.violation("R-C12a", f"{CA}:{f.node.lineno}", key, f"the {kind} bridge emits no Transpose", f.qualname)
            continue
        tc = tcalls[0]
        perm_e = next((k.value for k in tc.keywords if k.arg == "perm"), None)
        used = set()
        if perm_e is not None:
            used = {(_perm_role(n) or "") for n in names_in(perm_e)} - {""}
            if not used:
                used = {(_perm_role(n) or "") for n in du.closure(names_in(perm_e))} - {""}
        if used == {want_perm}:
            res.ok("R-C12a", f"{CA}:{tc.lineno}", key, f"perm= derives from {perms[want_perm][0]}", f.qualname)
        else:
            res.violation("R-C12a", f"{CA}:{tc.lineno}", key, f"the {kind} bridge must transpose with {perms[want_perm][0]} but perm= is `{src(perm_e) if perm_e is not None else 'missing'}`", f.qualname)
        # declared shape permuted with NHWC->NCHW: the NCHW side's dims = [nhwc_dims[p] for p in NHWC_TO_NCHW]
        key = f"{CA}::{f.qualname}::declared-shape"
        comps = [n for n in walk_no_nested(f.node) if isinstance(n, (ast.GeneratorExp, ast.ListComp)) and isinstance(n.elt, ast.Subscript) and any(_perm_role(x) for x in names_in(n.generators[0].iter))]
        good = [n for n in comps if {_perm_role(x) for x in names_in(n.generators[0].iter)} - {None} == {"nhwc_to_nchw"} and isinstance(n.elt, ast.Subscript)]
        if good and len(good) == len(comps):
            res.ok("R-C12a", f"{CA}:{good[0].lineno}", key, "NCHW-side dims are the NHWC dims permuted with NHWC->NCHW", f.qualname)
        else:
            res.violation("R-C12a", f"{CA}:{(comps or [f.node])[0].lineno}", key, "the shape declared on the NCHW side is not the NHWC shape permuted with NHWC->NCHW", f.qualname)
        # ---- R-C12b rank check dominates the transpose
        key = f"{CA}::{f.qualname}::require-4d"
        rq = [c for c in walk_no_nested(f.node) if isinstance(c, ast.Call) and (call_name(c) or "").endswith("_require_4d")]
        if rq and g.dominates(enclosing_stmt(rq[0]), enclosing_stmt(tc)):
            shape_arg = rq[0].args[0] if rq[0].args else None
            res.ok("R-C12b", f"{CA}:{rq[0].lineno}", key, f"_require_4d({src(shape_arg) if shape_arg is not None else ''}) dominates the Transpose", f.qualname)
        else:
            res.violation("R-C12b", f"{CA}:{tc.lineno}", key, "the boundary Transpose is emitted without a dominating rank-4 check: a non-4D tensor gets a 4-element perm", f.qualname)
        # ---- R-C12b complex tensors: carried as packed real tensors of rank + 1, so the rank-4 check on the aval says nothing
        # about the value the Transpose is applied to; a dominating check must reject complex dtypes (or the bridge must
        # handle the packed axis, which this rule does not recognise: UNRESOLVED then)
        key = f"{CA}::{f.qualname}::complex-rejected"
        dom_calls = [c for c in walk_no_nested(f.node) if isinstance(c, ast.Call) and g.nodes_of(enclosing_stmt(c)) and enclosing_stmt(c) is not enclosing_stmt(tc) and g.dominates(enclosing_stmt(c), enclosing_stmt(tc))]
        rejecting = None
        for c in dom_calls:
            h = idx.resolve_func(m, call_name(c) or "", cls=f.cls, scope=f)
            if h is None:
                continue
            txt = ast.unparse(h.node)
            if ("complexfloating" in txt or "iscomplex" in txt) and any(isinstance(x, ast.Raise) for x in ast.walk(h.node)):
                hg = cfg_of(h.node)
                tests = [n for n in walk_no_nested(h.node) if isinstance(n, ast.If) and ("complexfloating" in ast.unparse(n.test) or "iscomplex" in ast.unparse(n.test)) and any(isinstance(x, ast.Raise) for x in n.body)]
                if tests:
                    rejecting = (c, h)
        inline = [n for n in walk_no_nested(f.node) if isinstance(n, ast.If) and ("complexfloating" in ast.unparse(n.test) or "iscomplex" in ast.unparse(n.test)) and any(isinstance(x, ast.Raise) for x in n.body) and g.dominates(n, enclosing_stmt(tc))]
        if rejecting is not None:
            res.ok("R-C12b", f"{CA}:{rejecting[0].lineno}", key, f"{rejecting[1].name}() raises for complex dtypes and dominates the Transpose", f.qualname)
        elif inline:
            res.ok("R-C12b", f"{CA}:{inline[0].lineno}", key, "an inline test raises for complex dtypes before the Transpose", f.qualname)
        elif "complex" in ast.unparse(f.node):
            res.unresolved("R-C12b", f"{CA}:{tc.lineno}", key, "the bridge mentions complex values but no rejecting check was recognised", f.qualname)
        else:
            res.violation("R-C12b", f"{CA}:{tc.lineno}", key, f"a complex 4-D {kind} selected by the layout flag reaches the 4-element Transpose although its value is a packed real tensor of rank 5: "
                          "the model fails at run time (outputs) or loses the imaginary part (inputs) instead of being rejected", f.qualname)
    # input: origins recorded on the external NCHW value with the permuted shape
    du = defuse(bi.node)
    key = f"{CA}::_LayoutAdapter.bind_input::origin-on-external-value"
    rec = [c for c in walk_no_nested(bi.node) if isinstance(c, ast.Call) and (call_name(c) or "").endswith("record_symbolic_dim_origins")]
    ext = {name for name, ds in du.defs.items() for d in ds if d.value is not None and isinstance(d.value, ast.Call) and (call_name(d.value) or "") in ("ir.Value", "ir.val")}
    if rec and len(rec[0].args) == 2 and isinstance(rec[0].args[1], ast.Name) and rec[0].args[1].id in ext and any(_perm_role(x) == "nhwc_to_nchw" for x in du.closure(names_in(rec[0].args[0]))):
        res.ok("R-C12a", f"{CA}:{rec[0].lineno}", key, "symbolic-dim origins are recorded on the NCHW graph input with the permuted shape", bi.qualname)
    else:
        res.violation("R-C12a", f"{CA}:{bi.node.lineno}", key, "symbolic-dim origins of an NCHW input are not recorded on the external value with the NCHW-permuted shape (shape arithmetic would read the wrong axis)", bi.qualname)

    # _require_4d raises for every non-4D shape
    rf = idx.func(CA, "_LayoutAdapter._require_4d")
    g = cfg_of(rf.node)
    key = f"{CA}::_LayoutAdapter._require_4d::raises"
    ok_ifs = [n for n in walk_no_nested(rf.node) if isinstance(n, ast.If) and isinstance(n.test, ast.Compare) and isinstance(n.test.ops[0], ast.Eq) and isinstance(n.test.comparators[0], ast.Constant) and n.test.comparators[0].value == 4
              and any(isinstance(c, ast.Call) and (call_name(c) or "") == "len" for c in ast.walk(n.test.left))]
    if ok_ifs and g.must_pass_edges([g.EXIT], [(nn, "T") for i in ok_ifs for nn in g.nodes_of(i)]):
        res.ok("R-C12b", f"{CA}:{ok_ifs[0].lineno}", key, "returns normally only when len(shape) == 4", rf.qualname)
    else:
        res.violation("R-C12b", f"{CA}:{rf.node.lineno}", key, "_require_4d can return normally for a shape whose rank is not 4", rf.qualname)

    # _validate_layout_indices
    vf = idx.func(CA, "_validate_layout_indices")
    checks = {
        "non-integer": lambda t: isinstance(t, ast.UnaryOp) and isinstance(t.op, ast.Not) and any(isinstance(c, ast.Call) and (call_name(c) or "") == "isinstance" for c in ast.walk(t)),
        "out-of-range": lambda t: isinstance(t, ast.Compare) and isinstance(t.ops[0], (ast.GtE, ast.Gt)) and "upper_bound" in names_in(t),
        "negative": lambda t: isinstance(t, ast.Compare) and isinstance(t.ops[0], ast.Lt) and isinstance(t.comparators[0], ast.Constant) and t.comparators[0].value == 0,
        "duplicate": lambda t: isinstance(t, ast.Compare) and isinstance(t.ops[0], ast.In),
    }
    gv = cfg_of(vf.node)
    for cname, pred in checks.items():
        key = f"{CA}::_validate_layout_indices::{cname}"
        cands = [n for n in walk_no_nested(vf.node) if isinstance(n, ast.If) and rejects(n.test, pred) and any(isinstance(s, ast.Raise) for s in n.body)]
        if cands:
            res.ok("R-C12b", f"{CA}:{cands[0].lineno}", key, f"`if {src(cands[0].test, 60)}: raise`", vf.qualname)
        else:
            res.violation("R-C12b", f"{CA}:{vf.node.lineno}", key, f"_validate_layout_indices no longer rejects {cname} indices", vf.qualname)
    # validated values reach the bindings
    n_bind = 0
    for f in idx.module(CA).funcs.values():
        du = defuse(f.node)
        for c in walk_no_nested(f.node):
            if isinstance(c, ast.Call) and (call_name(c) or "") in ("_bind_jaxpr_inputs", "_bind_jaxpr_outputs"):
                n_bind += 1
                kw = "inputs_as_nchw" if (call_name(c) or "").endswith("inputs") else "outputs_as_nchw"
                v = next((k.value for k in c.keywords if k.arg == kw), None)
                key = f"{CA}::{f.qualname}::{call_name(c)}::validated"
                ok = False
                if v is not None:
                    cl = du.closure(names_in(v))
                    # derived from a trace result attribute or directly from _validate_layout_indices(...)
                    for nm in cl:
                        for val in du.values(nm):
                            if any(isinstance(x, ast.Call) and (call_name(x) or "") == "_validate_layout_indices" for x in ast.walk(val)):
                                ok = True
                            if isinstance(val, ast.Attribute) and val.attr == kw and isinstance(val.value, ast.Name):
                                ok = _trace_field_validated(idx, kw)
                if ok:
                    res.ok("R-C12b", f"{CA}:{c.lineno}", key, f"{kw} comes from _validate_layout_indices", f.qualname)
                else:
                    res.violation("R-C12b", f"{CA}:{c.lineno}", key, f"{call_name(c)}() receives `{src(v) if v is not None else '?'}` which is not the validated index tuple: invalid / duplicate indices reach the layout bridge", f.qualname)
    if n_bind == 0:
        raise AnalysisError("no call of _bind_jaxpr_inputs/_bind_jaxpr_outputs found")

    # ---- R-C12c
    for fname, plain in (("_LayoutAdapter.bind_inputs", "add_input_for_invar"), ("_LayoutAdapter.bind_outputs", "add_outputs_from_vars")):
        f = idx.func(CA, fname)
        key = f"{CA}::{fname}::plain-path"
        loops = [n for n in walk_no_nested(f.node) if isinstance(n, ast.For)]
        ok = False
        for lp in loops:
            for st in lp.body:
                if isinstance(st, ast.If) and isinstance(st.test, ast.Compare) and isinstance(st.test.ops[0], ast.In):
                    sel = any(isinstance(c, ast.Call) and (call_name(c) or "").split(".")[-1] in ("bind_input", "bind_output") for s in st.body for c in ast.walk(s))
                    pl = any(isinstance(c, ast.Call) and (call_name(c) or "").split(".")[-1] == plain for s in st.orelse for c in ast.walk(s))
                    no_transpose_in_else = not any(isinstance(c, ast.Call) and (call_name(c) or "").endswith("Transpose") for s in st.orelse for c in ast.walk(s))
                    if sel and pl and no_transpose_in_else:
                        ok = True
        if ok:
            res.ok("R-C12c", f"{CA}:{f.node.lineno}", key, f"selected indices use the bridge, all others call {plain}()", f.qualname)
        else:
            res.violation("R-C12c", f"{CA}:{f.node.lineno}", key, f"non-selected values do not take the plain path ({plain}) or selected ones skip the bridge", f.qualname)

    # ---- R-C12d: the optimizer removes the boundary Transposes where it can; that this never changes the function is
    # decided by C02's rules for the transpose / reshape folds, re-decided here (observation guards, inverse-permutation
    # precondition and its semantics, point-wise operator tables)
    if not getattr(res, "_nested_xref", False):
        from . import c02
        res.rule("R-C12d", "transpose / reshape folds that remove boundary Transposes keep the function (C02 R-C02a/f/h/k for those passes)", floor=40)
        sub = Results("C02", tier)
        setattr(sub, "_nested_xref", True)
        c02.run(sub, idx, tier)
        n_x = 0
        for inst in sub.instances:
            if inst.rule in ("R-C02h", "R-C02k", "R-C02l") or (inst.rule in ("R-C02a", "R-C02f") and ("transpose" in (inst.func + inst.key).lower() or "reshape" in (inst.func + inst.key).lower())):
                n_x += 1
                res.add("R-C12d", inst.status, inst.site, f"{inst.rule}::{inst.key}", f"[C02 {inst.rule}] {inst.detail}", inst.func)
        res.analysed["c02_instances_for_layout_folds"] = n_x


def _trace_field_validated(idx: Index, field: str) -> bool:
    """_TraceResult(<field>=<validated …>) in _trace_to_jaxpr"""
    f = idx.func(CA, "_trace_to_jaxpr")
    du = defuse(f.node)
    for c in walk_no_nested(f.node):
        if isinstance(c, ast.Call) and (call_name(c) or "") == "_TraceResult":
            for k in c.keywords:
                if k.arg == field:
                    for nm in du.closure(names_in(k.value)):
                        for v in du.values(nm):
                            if any(isinstance(x, ast.Call) and (call_name(x) or "") == "_validate_layout_indices" and any(isinstance(kk.value, ast.Constant) and kk.value.value == field for kk in x.keywords if kk.arg == "kind") for x in ast.walk(v)):
                                return True
    return False
