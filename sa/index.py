"""Source index: parse every jax2onnx/**/*.py once, record modules, imports, classes,
functions (with nesting), module/class constants and parent links."""
from __future__ import annotations

import ast
import hashlib
import os
from dataclasses import dataclass, field
from typing import Any, Dict, Iterable, Iterator, List, Optional, Tuple

REPO = os.environ.get("VERIF_REPO", "/repo")
PKG = "jax2onnx"


class AnalysisError(Exception):
    """An anchor vanished or the analysis cannot run: exit 2, never a VIOLATION."""


def dotted(node: ast.AST) -> Optional[str]:
    """`a.b.c` for Name/Attribute chains, else None."""
    parts: List[str] = []
    while isinstance(node, ast.Attribute):
        parts.append(node.attr)
        node = node.value
    if isinstance(node, ast.Name):
        parts.append(node.id)
        return ".".join(reversed(parts))
    return None


def call_name(call: ast.Call) -> Optional[str]:
    return dotted(call.func)


def last_name(node: ast.AST) -> str:
    """Last component of a Name/Attribute chain (or '')."""
    if isinstance(node, ast.Attribute):
        return node.attr
    if isinstance(node, ast.Name):
        return node.id
    return ""


def set_parents(tree: ast.AST) -> None:
    for parent in ast.walk(tree):
        for child in ast.iter_child_nodes(parent):
            child.parent = parent  # type: ignore[attr-defined]


def parents(node: ast.AST) -> Iterator[ast.AST]:
    cur = getattr(node, "parent", None)
    while cur is not None:
        yield cur
        cur = getattr(cur, "parent", None)


def enclosing_function(node: ast.AST) -> Optional[ast.AST]:
    for p in parents(node):
        if isinstance(p, (ast.FunctionDef, ast.AsyncFunctionDef, ast.Lambda)):
            return p
    return None


def enclosing_stmt(node: ast.AST) -> Optional[ast.stmt]:
    cur: Optional[ast.AST] = node
    while cur is not None and not isinstance(cur, ast.stmt):
        cur = getattr(cur, "parent", None)
    return cur  # type: ignore[return-value]


def walk_no_nested(node: ast.AST, *, include_lambda: bool = True) -> Iterator[ast.AST]:
    """Walk a function body without descending into nested def/class bodies."""
    stack = list(ast.iter_child_nodes(node))
    while stack:
        n = stack.pop()
        yield n
        if isinstance(n, (ast.FunctionDef, ast.AsyncFunctionDef, ast.ClassDef)):
            continue
        if isinstance(n, ast.Lambda) and not include_lambda:
            continue
        stack.extend(ast.iter_child_nodes(n))


@dataclass
class FuncInfo:
    node: ast.AST  # FunctionDef
    module: "Module"
    qualname: str
    cls: Optional["ClassInfo"]
    parent_func: Optional["FuncInfo"]

    @property
    def name(self) -> str:
        return self.node.name  # type: ignore[attr-defined]

    @property
    def site(self) -> str:
        return f"{self.module.rel}:{self.node.lineno}"  # type: ignore[attr-defined]

    @property
    def fq(self) -> str:
        return f"{self.module.name}.{self.qualname}"

    def nested(self) -> Dict[str, "FuncInfo"]:
        return {
            f.name: f for f in self.module.funcs.values() if f.parent_func is self
        }


@dataclass
class ClassInfo:
    node: ast.ClassDef
    module: "Module"
    name: str
    bases: List[str]
    consts: Dict[str, Any] = field(default_factory=dict)
    methods: Dict[str, FuncInfo] = field(default_factory=dict)
    decorators: List[ast.expr] = field(default_factory=list)


_UNFOLDABLE = object()


def fold_const(node: Optional[ast.AST], env: Dict[str, Any]) -> Any:
    """Fold str/int/float/bool/None/tuple/list/set/frozenset/dict-of-consts expressions.
    Returns _UNFOLDABLE when not a constant."""
    if node is None:
        return _UNFOLDABLE
    if isinstance(node, ast.Constant):
        return node.value
    if isinstance(node, ast.Name):
        return env.get(node.id, _UNFOLDABLE)
    if isinstance(node, ast.Attribute) and isinstance(node.value, ast.Name) and node.value.id in ("cls", "self"):
        return env.get(node.attr, _UNFOLDABLE)
    if isinstance(node, (ast.Tuple, ast.List, ast.Set)):
        vals = [fold_const(e, env) for e in node.elts]
        if any(v is _UNFOLDABLE for v in vals):
            return _UNFOLDABLE
        if isinstance(node, ast.Tuple):
            return tuple(vals)
        if isinstance(node, ast.List):
            return list(vals)
        try:
            return frozenset(vals)
        except TypeError:
            return _UNFOLDABLE
    if isinstance(node, ast.Dict):
        out = {}
        for k, v in zip(node.keys, node.values):
            kk = fold_const(k, env) if k is not None else _UNFOLDABLE
            vv = fold_const(v, env)
            if kk is _UNFOLDABLE or vv is _UNFOLDABLE:
                return _UNFOLDABLE
            try:
                out[kk] = vv
            except TypeError:
                return _UNFOLDABLE
        return out
    if isinstance(node, ast.JoinedStr):
        s = ""
        for v in node.values:
            if isinstance(v, ast.Constant):
                s += str(v.value)
            elif isinstance(v, ast.FormattedValue):
                inner = fold_const(v.value, env)
                if inner is _UNFOLDABLE or v.format_spec is not None:
                    return _UNFOLDABLE
                s += str(inner)
        return s
    if isinstance(node, ast.UnaryOp) and isinstance(node.op, ast.USub):
        v = fold_const(node.operand, env)
        if isinstance(v, (int, float)) and not isinstance(v, bool):
            return -v
        return _UNFOLDABLE
    if isinstance(node, ast.BinOp):
        l, r = fold_const(node.left, env), fold_const(node.right, env)
        if l is _UNFOLDABLE or r is _UNFOLDABLE:
            return _UNFOLDABLE
        try:
            if isinstance(node.op, ast.Add):
                return l + r
            if isinstance(node.op, ast.Sub):
                return l - r
            if isinstance(node.op, ast.Mult):
                return l * r
            if isinstance(node.op, ast.BitOr):
                return l | r
            if isinstance(node.op, ast.Pow) and isinstance(r, int) and abs(r) < 4096:
                return l ** r
            if isinstance(node.op, ast.LShift) and isinstance(r, int) and 0 <= r < 4096:
                return l << r
        except Exception:
            return _UNFOLDABLE
        return _UNFOLDABLE
    if isinstance(node, ast.Call):
        fn = dotted(node.func)
        if fn in ("frozenset", "set", "tuple", "list") and len(node.args) <= 1 and not node.keywords:
            if not node.args:
                return {"frozenset": frozenset(), "set": frozenset(), "tuple": (), "list": []}[fn]
            inner = fold_const(node.args[0], env)
            if inner is _UNFOLDABLE:
                return _UNFOLDABLE
            try:
                return {"frozenset": frozenset, "set": frozenset, "tuple": tuple, "list": list}[fn](inner)
            except TypeError:
                return _UNFOLDABLE
    return _UNFOLDABLE


def is_const(v: Any) -> bool:
    return v is not _UNFOLDABLE


class Module:
    def __init__(self, path: str, rel: str, name: str, src: str):
        self.path = path
        self.rel = rel
        self.name = name
        self.src = src
        self.tree = ast.parse(src, filename=path)
        set_parents(self.tree)
        self.imports: Dict[str, str] = {}
        self.consts: Dict[str, Any] = {}
        self.funcs: Dict[str, FuncInfo] = {}
        self.classes: Dict[str, ClassInfo] = {}
        self.func_of_node: Dict[int, FuncInfo] = {}
        self._collect()

    # ------------------------------------------------------------------
    def _resolve_relative(self, level: int, module: Optional[str]) -> str:
        if level == 0:
            return module or ""
        base = self.name.split(".")
        if not self.path.endswith("__init__.py"):
            base = base[:-1]
        if level > 1:
            base = base[: len(base) - (level - 1)]
        return ".".join(base + ([module] if module else []))

    def _collect(self) -> None:
        for node in ast.walk(self.tree):
            if isinstance(node, ast.Import):
                for a in node.names:
                    if a.asname:
                        self.imports.setdefault(a.asname, a.name)
                    else:
                        top = a.name.split(".")[0]
                        self.imports.setdefault(top, top)
            elif isinstance(node, ast.ImportFrom):
                base = self._resolve_relative(node.level, node.module)
                for a in node.names:
                    if a.name == "*":
                        continue
                    self.imports.setdefault(a.asname or a.name, f"{base}.{a.name}" if base else a.name)
        for st in self.tree.body:
            self._collect_const(st, self.consts)
        self._collect_defs(self.tree.body, prefix="", cls=None, parent=None)

    @staticmethod
    def _collect_const(st: ast.stmt, env: Dict[str, Any]) -> None:
        tgt = None
        val = None
        if isinstance(st, ast.Assign) and len(st.targets) == 1:
            tgt, val = st.targets[0], st.value
        elif isinstance(st, ast.AnnAssign) and st.value is not None:
            tgt, val = st.target, st.value
        if isinstance(tgt, ast.Name) and val is not None:
            v = fold_const(val, env)
            if is_const(v):
                env[tgt.id] = v

    def _collect_defs(self, body: Iterable[ast.stmt], prefix: str, cls: Optional[ClassInfo], parent: Optional[FuncInfo]) -> None:
        for st in body:
            if isinstance(st, (ast.FunctionDef, ast.AsyncFunctionDef)):
                qn = f"{prefix}{st.name}"
                fi = FuncInfo(st, self, qn, cls, parent)
                # keep first definition under the plain name; overloads get a suffix
                key = qn
                k = 1
                prev = self.funcs.get(qn)
                if prev is not None and any((dotted(d) or "").split(".")[-1] == "overload" for d in getattr(prev.node, "decorator_list", [])):
                    # typing.overload stubs give way to the implementation under the plain name
                    j = 1
                    while f"{qn}#overload{j}" in self.funcs:
                        j += 1
                    prev.qualname = f"{qn}#overload{j}"
                    self.funcs[prev.qualname] = prev
                    del self.funcs[qn]
                while key in self.funcs:
                    k += 1
                    key = f"{qn}#{k}"
                fi.qualname = key
                self.funcs[key] = fi
                self.func_of_node[id(st)] = fi
                if cls is not None and parent is None and st.name not in cls.methods:
                    cls.methods[st.name] = fi
                self._collect_defs(_all_stmts(st.body), prefix=f"{key}.<locals>.", cls=cls, parent=fi)
            elif isinstance(st, ast.ClassDef):
                ci = ClassInfo(st, self, f"{prefix}{st.name}", [dotted(b) or "" for b in st.bases], decorators=list(st.decorator_list))
                env = dict(self.consts)
                for s2 in st.body:
                    self._collect_const(s2, env)
                ci.consts = {k: v for k, v in env.items() if k not in self.consts or self.consts[k] is not v}
                self.classes[ci.name] = ci
                self._collect_defs(st.body, prefix=f"{ci.name}.", cls=ci, parent=parent)
            elif parent is None and cls is None:
                # defs nested in module-level if/try
                for sub in _child_blocks(st):
                    self._collect_defs(sub, prefix, cls, parent)

    # ------------------------------------------------------------------
    def resolve(self, name: str) -> str:
        """Resolve a dotted local name to a fully qualified one through the import table."""
        head, _, rest = name.partition(".")
        if head in self.imports:
            base = self.imports[head]
            return f"{base}.{rest}" if rest else base
        if head in self.funcs or head in self.classes or head in self.consts:
            return f"{self.name}.{name}"
        return name

    def line(self, lineno: int) -> str:
        lines = self.src.splitlines()
        return lines[lineno - 1].strip() if 0 < lineno <= len(lines) else ""

    def func_containing(self, node: ast.AST) -> Optional[FuncInfo]:
        for p in [node, *parents(node)]:
            if isinstance(p, (ast.FunctionDef, ast.AsyncFunctionDef)):
                fi = self.func_of_node.get(id(p))
                if fi is not None:
                    return fi
        return None

    def class_env(self, cls: Optional[ClassInfo]) -> Dict[str, Any]:
        env = dict(self.consts)
        if cls is not None:
            env.update(cls.consts)
        return env


def _child_blocks(st: ast.stmt) -> List[List[ast.stmt]]:
    out = []
    for fld in ("body", "orelse", "finalbody"):
        b = getattr(st, fld, None)
        if isinstance(b, list) and b and isinstance(b[0], ast.stmt):
            out.append(b)
    for h in getattr(st, "handlers", []) or []:
        out.append(h.body)
    return out


def _all_stmts(body: List[ast.stmt]) -> Iterator[ast.stmt]:
    """Statements of a function body including those nested in compound statements
    (but not inside nested defs/classes, which are yielded themselves)."""
    for st in body:
        yield st
        if isinstance(st, (ast.FunctionDef, ast.AsyncFunctionDef, ast.ClassDef)):
            continue
        for blk in _child_blocks(st):
            yield from _all_stmts(blk)


class Index:
    def __init__(self, repo: str = REPO, pkg: str = PKG):
        self.repo = repo
        self.modules: Dict[str, Module] = {}
        self.by_rel: Dict[str, Module] = {}
        root = os.path.join(repo, pkg)
        if not os.path.isdir(root):
            raise AnalysisError(f"package directory missing: {root}")
        h = hashlib.sha256()
        for dirpath, dirnames, filenames in os.walk(root):
            dirnames[:] = sorted(d for d in dirnames if d != "__pycache__")
            for fn in sorted(filenames):
                if not fn.endswith(".py"):
                    continue
                path = os.path.join(dirpath, fn)
                rel = os.path.relpath(path, repo)
                modname = rel[:-3].replace(os.sep, ".")
                if modname.endswith(".__init__"):
                    modname = modname[: -len(".__init__")]
                with open(path, "r", encoding="utf-8") as fh:
                    src = fh.read()
                h.update(rel.encode())
                h.update(src.encode())
                try:
                    m = Module(path, rel, modname, src)
                except SyntaxError as e:  # the tree must at least parse
                    raise AnalysisError(f"cannot parse {rel}: {e}")
                self.modules[modname] = m
                self.by_rel[rel] = m
        self.digest = h.hexdigest()

    # ------------------------------------------------------------------
    def module(self, rel_or_name: str) -> Module:
        m = self.by_rel.get(rel_or_name) or self.modules.get(rel_or_name)
        if m is None:
            raise AnalysisError(f"anchor module missing: {rel_or_name}")
        return m

    def func(self, rel: str, qualname: str) -> FuncInfo:
        m = self.module(rel)
        f = m.funcs.get(qualname)
        if f is None:
            raise AnalysisError(f"anchor function missing: {rel}::{qualname}")
        return f

    def find_func(self, rel: str, qualname: str) -> Optional[FuncInfo]:
        m = self.by_rel.get(rel)
        return m.funcs.get(qualname) if m else None

    def product_modules(self, *, include_examples: bool = False, include_sandbox: bool = False) -> List[Module]:
        out = []
        for m in self.modules.values():
            if not include_sandbox and ".sandbox" in m.name:
                continue
            if not include_examples and ".plugins.examples" in m.name:
                continue
            out.append(m)
        return out

    def resolve_func(self, mod: Module, name: str, *, cls: Optional[ClassInfo] = None, scope: Optional[FuncInfo] = None) -> Optional[FuncInfo]:
        """Resolve a called name (`f`, `mod.f`, `cls.m`, `self.m`, `Class.m`) to a FuncInfo in the package."""
        head, _, rest = name.partition(".")
        # nested/local defs visible from scope
        cur = scope
        while cur is not None and not rest:
            cand = mod.funcs.get(f"{cur.qualname}.<locals>.{head}")
            if cand is not None:
                return cand
            cur = cur.parent_func
        if head in ("cls", "self") and cls is not None and rest and "." not in rest:
            return self.resolve_method(cls, rest)
        if not rest and head in mod.funcs:
            return mod.funcs[head]
        if head in mod.classes and rest and "." not in rest:
            return self.resolve_method(mod.classes[head], rest)
        fq = mod.resolve(name)
        return self.func_by_fq(fq)

    def func_by_fq(self, fq: str) -> Optional[FuncInfo]:
        parts = fq.split(".")
        for i in range(len(parts) - 1, 0, -1):
            mname = ".".join(parts[:i])
            m = self.modules.get(mname)
            if m is not None:
                rest = ".".join(parts[i:])
                if rest in m.funcs:
                    return m.funcs[rest]
                # re-exported name
                head = parts[i]
                if head in m.imports and m.imports[head] != fq:
                    tgt = m.imports[head] + ("." + ".".join(parts[i + 1:]) if parts[i + 1:] else "")
                    if tgt != fq:
                        return self.func_by_fq(tgt)
                return None
        return None

    def class_by_fq(self, fq: str, _seen: Optional[set] = None) -> Optional[ClassInfo]:
        _seen = _seen or set()
        if fq in _seen:
            return None
        _seen.add(fq)
        parts = fq.split(".")
        for i in range(len(parts) - 1, 0, -1):
            m = self.modules.get(".".join(parts[:i]))
            if m is not None:
                rest = ".".join(parts[i:])
                if rest in m.classes:
                    return m.classes[rest]
                head = parts[i]
                if head in m.imports:
                    return self.class_by_fq(m.imports[head] + ("." + ".".join(parts[i + 1:]) if parts[i + 1:] else ""), _seen)
                return None
        return None

    def canonical(self, fq: str, _depth: int = 0) -> str:
        """Follow re-exports through package modules: jax2onnx._compat.jax.batching -> jax.interpreters.batching."""
        if _depth > 6 or not fq.startswith(PKG):
            return fq
        parts = fq.split(".")
        for i in range(len(parts) - 1, 0, -1):
            m = self.modules.get(".".join(parts[:i]))
            if m is not None:
                head = parts[i]
                if head in m.imports and head not in m.funcs and head not in m.classes:
                    tgt = m.imports[head] + ("." + ".".join(parts[i + 1:]) if parts[i + 1:] else "")
                    if tgt != fq:
                        return self.canonical(tgt, _depth + 1)
                return fq
        return fq

    def class_mro(self, cls: ClassInfo) -> List[ClassInfo]:
        out, seen, todo = [], set(), [cls]
        while todo:
            c = todo.pop(0)
            if id(c) in seen:
                continue
            seen.add(id(c))
            out.append(c)
            for b in c.bases:
                if not b:
                    continue
                if b in c.module.classes:
                    todo.append(c.module.classes[b])
                else:
                    bc = self.class_by_fq(c.module.resolve(b))
                    if bc is not None:
                        todo.append(bc)
        return out

    def resolve_method(self, cls: ClassInfo, name: str) -> Optional[FuncInfo]:
        for c in self.class_mro(cls):
            if name in c.methods:
                return c.methods[name]
        return None

    def class_const(self, cls: ClassInfo, name: str) -> Any:
        for c in self.class_mro(cls):
            if name in c.consts:
                return c.consts[name]
        return _UNFOLDABLE

    def all_funcs(self, mods: Optional[Iterable[Module]] = None) -> Iterator[FuncInfo]:
        for m in (mods if mods is not None else self.modules.values()):
            yield from m.funcs.values()


_INDEX: Optional[Index] = None


def get_index() -> Index:
    global _INDEX
    if _INDEX is None:
        _INDEX = Index()
    return _INDEX
