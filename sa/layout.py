"""Symbolic list layouts: the sections a list is assembled from, and slices over a sequence with that layout.

A *layout* is the ordered list of sections `(length, source)` a local list gets from its literal
initialiser and the straight-line `append` / `extend` calls that follow.  Lengths are linear forms over
atoms `len:<collection>` / `int:<flag>` / `name:<x>`.  A slice `[a:b]` of a sequence that has this layout is
*aligned* when `a` and `b` equal consecutive prefix sums.  Nothing is evaluated: two forms are equal only
when they normalise to the same coefficient map (sound: no claim when they do not)."""
from __future__ import annotations

import ast
from dataclasses import dataclass
from typing import Dict, List, Optional, Tuple

from .flow import DefUse
from .guards import path_conditions, src
from .index import call_name, dotted, walk_no_nested

Lin = Dict[str, int]  # atom -> coefficient; "" is the constant term


def lin_add(a: Lin, b: Lin, sign: int = 1) -> Lin:
    out = dict(a)
    for k, v in b.items():
        out[k] = out.get(k, 0) + sign * v
        if out[k] == 0:
            del out[k]
    return out


def lin_of(e: Optional[ast.AST], du: DefUse, depth: int = 0) -> Optional[Lin]:
    if e is None:
        return {}
    if depth > 6:
        return None
    if isinstance(e, ast.Constant) and isinstance(e.value, int) and not isinstance(e.value, bool):
        return {"": e.value} if e.value else {}
    if isinstance(e, ast.BinOp) and isinstance(e.op, (ast.Add, ast.Sub)):
        l, r = lin_of(e.left, du, depth + 1), lin_of(e.right, du, depth + 1)
        if l is None or r is None:
            return None
        return lin_add(l, r, 1 if isinstance(e.op, ast.Add) else -1)
    if isinstance(e, ast.Call):
        cn = call_name(e) or ""
        if cn == "len" and len(e.args) == 1:
            d = dotted(e.args[0])
            if d and isinstance(e.args[0], ast.Name):
                return length_of_name(d, du, du.func)
            return {f"len:{d}": 1} if d else None
        if cn in ("int", "bool") and len(e.args) == 1:
            d = dotted(e.args[0])
            if d:
                return {f"int:{d}": 1}
            return lin_of(e.args[0], du, depth + 1)
        return None
    if isinstance(e, ast.Name):
        defs = [d for d in du.defs.get(e.id, []) if d.kind != "setitem"]
        if len(defs) == 1 and defs[0].kind in ("assign", "walrus") and defs[0].value is not None:
            inner = lin_of(defs[0].value, du, depth + 1)
            if inner is not None:
                return inner
        return {f"name:{e.id}": 1}
    return None


@dataclass
class Section:
    length: Lin
    source: str       # collection (dotted) the section has one element per item of, or "<element>" / "<flag …>"
    stmt: ast.AST


def list_layout(fn: ast.AST, du: DefUse, name: str) -> Optional[List[Section]]:
    """Sections of local list `name`; None when it is not assembled by a literal + straight-line append/extend."""
    inits = [d for d in du.defs.get(name, []) if d.kind == "assign" and isinstance(d.value, ast.List)]
    if len(inits) != 1 or len([d for d in du.defs.get(name, []) if d.kind != "setitem"]) != 1:
        return None
    secs: List[Section] = []
    for el in inits[0].value.elts:  # type: ignore[union-attr]
        if isinstance(el, ast.Starred):
            d = dotted(el.value)
            t = trip_count(el.value, du, fn, 1)
            if t is None:
                return None
            secs.append(Section(t[0], d or t[1], inits[0].stmt))
        else:
            secs.append(Section({"": 1}, "<element>", inits[0].stmt))
    calls = [c for c in walk_no_nested(fn) if isinstance(c, ast.Call) and isinstance(c.func, ast.Attribute) and isinstance(c.func.value, ast.Name) and c.func.value.id == name]
    calls.sort(key=lambda c: (c.lineno, c.col_offset))
    for c in calls:
        meth = c.func.attr  # type: ignore[union-attr]
        if meth not in ("append", "extend"):
            if meth in ("insert", "pop", "remove", "clear", "sort", "reverse"):
                return None
            continue
        loops = [p for p in _parents_upto(c, fn) if isinstance(p, (ast.For, ast.While))]
        if loops:
            # one unconditional append per iteration of a single `for` loop without break / continue
            lp = loops[0]
            st = c
            while getattr(st, "parent", None) is not lp and st is not None:
                st = getattr(st, "parent", None)
            if (len(loops) != 1 or not isinstance(lp, ast.For) or lp.orelse or meth != "append" or st not in lp.body or not isinstance(st, ast.Expr)
                    or any(isinstance(x, (ast.Break, ast.Continue, ast.Return)) for b in lp.body for x in ast.walk(b))
                    or _enclosing_if_conditions(lp, fn) != []):
                return None
            t = trip_count(lp.iter, du, fn)
            if t is None:
                return None
            secs.append(Section(t[0], t[1], c))
            continue
        conds = _enclosing_if_conditions(c, fn)
        if conds is None or len(conds) > 1 or not c.args:
            return None
        if meth == "append":
            if conds:
                e, w = conds[0]
                d = dotted(e)
                if not d or not w:
                    return None
                secs.append(Section({f"int:{d}": 1}, f"<flag {d}>", c))
            else:
                secs.append(Section({"": 1}, "<element>", c))
        else:
            if conds:
                return None
            a = c.args[0]
            if isinstance(a, ast.GeneratorExp) or isinstance(a, ast.ListComp):
                if len(a.generators) != 1 or a.generators[0].ifs:
                    return None
                coll = a.generators[0].iter
            else:
                coll = a
            d = dotted(coll)
            t = trip_count(coll, du, fn, 1)
            if t is None:
                return None
            secs.append(Section(t[0], d or t[1], c))
    return secs


def trip_count(it: ast.AST, du: DefUse, fn: ast.AST, depth: int = 0) -> Optional[Tuple[Lin, str]]:
    """(number of iterations, source text) of `for … in it` as a linear form.  `C[:N]` counts N iterations
    (assumes len(C) >= N: the callers slice by the arities the primitive guarantees)."""
    if depth > 3:
        return None
    if isinstance(it, ast.Call):
        cn = call_name(it) or ""
        if cn == "range" and len(it.args) == 1:
            l = lin_of(it.args[0], du)
            return (l, f"range({src(it.args[0], 30)})") if l is not None else None
        if cn == "range" and len(it.args) == 2:
            a, b = lin_of(it.args[0], du), lin_of(it.args[1], du)
            return (lin_add(b, a, -1), src(it, 40)) if a is not None and b is not None else None
        if cn in ("enumerate", "list", "tuple", "reversed") and it.args:
            return trip_count(it.args[0], du, fn, depth + 1)
        if cn == "zip" and it.args:
            ts = [trip_count(a, du, fn, depth + 1) for a in it.args]
            if all(t is not None for t in ts) and all(t[0] == ts[0][0] for t in ts):  # type: ignore[index]
                return ts[0]
            return None
        return None
    if isinstance(it, ast.Subscript) and isinstance(it.slice, ast.Slice) and it.slice.step is None:
        base = dotted(it.value)
        if not base:
            return None
        lo, hi = it.slice.lower, it.slice.upper
        if lo is None and hi is not None:
            l = lin_of(hi, du)
            return (l, src(it, 40)) if l is not None else None
        if lo is not None and hi is None:
            l = lin_of(lo, du)
            return (lin_add({f"len:{base}": 1}, l, -1), src(it, 40)) if l is not None else None
        if lo is not None and hi is not None:
            a, b = lin_of(lo, du), lin_of(hi, du)
            return (lin_add(b, a, -1), src(it, 40)) if a is not None and b is not None else None
        return None
    d = dotted(it)
    if d:
        if isinstance(it, ast.Name):
            return length_of_name(d, du, fn), d
        return {f"len:{d}": 1}, d
    return None


_IN_PROGRESS: set = set()


def length_of_name(name: str, du: DefUse, fn: ast.AST) -> Lin:
    """Canonical length of a local collection: the sum of its sections when it is a locally assembled list, the
    trip count of its single defining slice / range / list(...) expression, else the atom len:<name>."""
    key = (id(fn), name)
    if key in _IN_PROGRESS:
        return {f"len:{name}": 1}
    _IN_PROGRESS.add(key)
    try:
        inner = list_layout(fn, du, name)
        if inner:
            return prefix_sums(inner)[-1]
        defs = [x for x in du.defs.get(name, []) if x.kind != "setitem"]
        if len(defs) == 1 and defs[0].kind == "assign" and defs[0].value is not None and isinstance(defs[0].value, (ast.Subscript, ast.Call)):
            t = trip_count(defs[0].value, du, fn, 1)
            if t is not None:
                return t[0]
        return {f"len:{name}": 1}
    finally:
        _IN_PROGRESS.discard(key)


def index_range(sub: ast.Subscript, du: DefUse, fn: ast.AST) -> Optional[Tuple[Lin, Optional[Lin], str]]:
    """For `L[E + i]` with `i` the index variable of an enclosing `for i in range(N)` / `for i, x in enumerate(C)`:
    (start, trip count or None, loop text).  For a plain `L[E]`: (E, {"":1}, "")."""
    e = sub.slice
    if isinstance(e, ast.Slice):
        return None
    loops = [p for p in _parents_upto(sub, fn) if isinstance(p, ast.For)]
    idx_vars: Dict[str, ast.For] = {}
    for lp in loops:
        t = lp.target
        it = lp.iter
        if isinstance(t, ast.Name) and isinstance(it, ast.Call) and (call_name(it) or "") == "range":
            idx_vars.setdefault(t.id, lp)
        if isinstance(t, ast.Tuple) and t.elts and isinstance(t.elts[0], ast.Name) and isinstance(it, ast.Call) and (call_name(it) or "") == "enumerate":
            idx_vars.setdefault(t.elts[0].id, lp)
    # split E + i
    terms: List[ast.AST] = []

    def flat(x: ast.AST) -> bool:
        if isinstance(x, ast.BinOp) and isinstance(x.op, ast.Add):
            return flat(x.left) and flat(x.right)
        terms.append(x)
        return True
    flat(e)
    ivs = [t for t in terms if isinstance(t, ast.Name) and t.id in idx_vars]
    if len(ivs) > 1:
        return None
    rest: Lin = {}
    for t in terms:
        if t in ivs:
            continue
        l = lin_of(t, du)
        if l is None:
            return None
        rest = lin_add(rest, l)
    if not ivs:
        if any(k.startswith("name:") and k[5:] in {n for lp in loops for n in _target_names(lp.target)} for k in rest):
            return None  # indexed by something computed from a loop variable
        return rest, {"": 1}, ""
    lp = idx_vars[ivs[0].id]
    it = lp.iter
    if (call_name(it) or "") == "range" and len(it.args) == 2:  # type: ignore[arg-type]
        a = lin_of(it.args[0], du)  # type: ignore[union-attr]
        if a is None:
            return None
        rest = lin_add(rest, a)
    t = trip_count(it, du, fn)
    return rest, (t[0] if t is not None else None), src(it, 40)


def _target_names(t: ast.AST):
    for x in ast.walk(t):
        if isinstance(x, ast.Name):
            yield x.id


def atoms(l: Lin) -> set:
    return {k for k in l if k}


def _enclosing_if_conditions(c: ast.AST, fn: ast.AST):
    """(test, branch) of the `if` statements the call is nested in (None: nested in something else that can skip it)."""
    out = []
    child = c
    for p in _parents_upto(c, fn):
        if isinstance(p, ast.If):
            if child in p.body:
                out.append((p.test, True))
            elif child in p.orelse:
                out.append((p.test, False))
        elif isinstance(p, (ast.Try, ast.With, ast.IfExp, ast.BoolOp, ast.Lambda, ast.FunctionDef, ast.Match if hasattr(ast, "Match") else ast.Try)):
            if isinstance(p, ast.With):
                child = p
                continue
            return None
        child = p
    return out


def _parents_upto(n: ast.AST, stop: ast.AST):
    cur = getattr(n, "parent", None)
    while cur is not None and cur is not stop:
        yield cur
        cur = getattr(cur, "parent", None)


def prefix_sums(secs: List[Section]) -> List[Lin]:
    out: List[Lin] = [{}]
    for s in secs:
        out.append(lin_add(out[-1], s.length))
    return out


def locate_slice(secs: List[Section], lo: Optional[Lin], hi: Optional[Lin]) -> Optional[Tuple[int, int]]:
    """(first section, one past last section) the slice [lo:hi] covers exactly, or None if it is not aligned."""
    ps = prefix_sums(secs)
    if lo is None:
        return None
    starts = [i for i, p in enumerate(ps) if p == lo]
    if not starts:
        return None
    if hi is None:
        return None
    ends = [i for i, p in enumerate(ps) if p == hi]
    if not ends:
        return None
    # zero-length sections make prefix sums repeat: choose the widest consistent cover
    return min(starts), max(ends)


def show(l: Optional[Lin]) -> str:
    if l is None:
        return "?"
    if not l:
        return "0"
    return " + ".join((f"{v}*" if v != 1 else "") + (k or "1") if k else str(v) for k, v in sorted(l.items()))
