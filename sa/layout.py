"""Symbolic list layouts: the sections a list is assembled from, and slices over a sequence with that layout.

A *layout* is the ordered list of sections `(length, source)` a local list gets from its literal
initialiser and the straight-line `append` / `extend` calls that follow.  Lengths are linear forms over
atoms `len:<collection>` / `int:<flag>` / `name:<x>`.  A slice `[a:b]` of a sequence that has this layout is
*aligned* when `a` and `b` equal consecutive prefix sums.  Nothing is evaluated: two forms are equal only
when they normalise to the same coefficient map (sound: no claim when they do not)."""
from __future__ import annotations

import ast
from dataclasses import dataclass
from typing import Dict, List, Optional, Tuple

from .flow import DefUse
from .guards import path_conditions, src
from .index import call_name, dotted, walk_no_nested

Lin = Dict[str, int]  # atom -> coefficient; "" is the constant term


def lin_add(a: Lin, b: Lin, sign: int = 1) -> Lin:
    out = dict(a)
    for k, v in b.items():
        out[k] = out.get(k, 0) + sign * v
        if out[k] == 0:
            del out[k]
    return out


def lin_of(e: Optional[ast.AST], du: DefUse, depth: int = 0) -> Optional[Lin]:
    if e is None:
        return {}
    if depth > 6:
        return None
    if isinstance(e, ast.Constant) and isinstance(e.value, int) and not isinstance(e.value, bool):
        return {"": e.value} if e.value else {}
    if isinstance(e, ast.BinOp) and isinstance(e.op, (ast.Add, ast.Sub)):
        l, r = lin_of(e.left, du, depth + 1), lin_of(e.right, du, depth + 1)
        if l is None or r is None:
            return None
        return lin_add(l, r, 1 if isinstance(e.op, ast.Add) else -1)
    if isinstance(e, ast.Call):
        cn = call_name(e) or ""
        if cn == "len" and len(e.args) == 1:
            d = dotted(e.args[0])
            return {f"len:{d}": 1} if d else None
        if cn in ("int", "bool") and len(e.args) == 1:
            d = dotted(e.args[0])
            if d:
                return {f"int:{d}": 1}
            return lin_of(e.args[0], du, depth + 1)
        return None
    if isinstance(e, ast.Name):
        defs = [d for d in du.defs.get(e.id, []) if d.kind != "setitem"]
        if len(defs) == 1 and defs[0].kind in ("assign", "walrus") and defs[0].value is not None:
            inner = lin_of(defs[0].value, du, depth + 1)
            if inner is not None:
                return inner
        return {f"name:{e.id}": 1}
    return None


@dataclass
class Section:
    length: Lin
    source: str       # collection (dotted) the section has one element per item of, or "<element>" / "<flag …>"
    stmt: ast.AST


def list_layout(fn: ast.AST, du: DefUse, name: str) -> Optional[List[Section]]:
    """Sections of local list `name`; None when it is not assembled by a literal + straight-line append/extend."""
    inits = [d for d in du.defs.get(name, []) if d.kind == "assign" and isinstance(d.value, ast.List)]
    if len(inits) != 1 or len([d for d in du.defs.get(name, []) if d.kind != "setitem"]) != 1:
        return None
    secs: List[Section] = []
    for el in inits[0].value.elts:  # type: ignore[union-attr]
        if isinstance(el, ast.Starred):
            d = dotted(el.value)
            if not d:
                return None
            secs.append(Section({f"len:{d}": 1}, d, inits[0].stmt))
        else:
            secs.append(Section({"": 1}, "<element>", inits[0].stmt))
    calls = [c for c in walk_no_nested(fn) if isinstance(c, ast.Call) and isinstance(c.func, ast.Attribute) and isinstance(c.func.value, ast.Name) and c.func.value.id == name]
    calls.sort(key=lambda c: (c.lineno, c.col_offset))
    for c in calls:
        meth = c.func.attr  # type: ignore[union-attr]
        if meth not in ("append", "extend"):
            if meth in ("insert", "pop", "remove", "clear", "sort", "reverse"):
                return None
            continue
        if any(isinstance(p, (ast.For, ast.While)) for p in _parents_upto(c, fn)):
            return None
        conds = _enclosing_if_conditions(c, fn)
        if conds is None or len(conds) > 1 or not c.args:
            return None
        if meth == "append":
            if conds:
                e, w = conds[0]
                d = dotted(e)
                if not d or not w:
                    return None
                secs.append(Section({f"int:{d}": 1}, f"<flag {d}>", c))
            else:
                secs.append(Section({"": 1}, "<element>", c))
        else:
            if conds:
                return None
            a = c.args[0]
            if isinstance(a, ast.GeneratorExp) or isinstance(a, ast.ListComp):
                if len(a.generators) != 1 or a.generators[0].ifs:
                    return None
                d = dotted(a.generators[0].iter)
            else:
                d = dotted(a)
            if not d:
                return None
            secs.append(Section({f"len:{d}": 1}, d, c))
    return secs


def _enclosing_if_conditions(c: ast.AST, fn: ast.AST):
    """(test, branch) of the `if` statements the call is nested in (None: nested in something else that can skip it)."""
    out = []
    child = c
    for p in _parents_upto(c, fn):
        if isinstance(p, ast.If):
            if child in p.body:
                out.append((p.test, True))
            elif child in p.orelse:
                out.append((p.test, False))
        elif isinstance(p, (ast.Try, ast.With, ast.IfExp, ast.BoolOp, ast.Lambda, ast.FunctionDef, ast.Match if hasattr(ast, "Match") else ast.Try)):
            if isinstance(p, ast.With):
                child = p
                continue
            return None
        child = p
    return out


def _parents_upto(n: ast.AST, stop: ast.AST):
    cur = getattr(n, "parent", None)
    while cur is not None and cur is not stop:
        yield cur
        cur = getattr(cur, "parent", None)


def prefix_sums(secs: List[Section]) -> List[Lin]:
    out: List[Lin] = [{}]
    for s in secs:
        out.append(lin_add(out[-1], s.length))
    return out


def locate_slice(secs: List[Section], lo: Optional[Lin], hi: Optional[Lin]) -> Optional[Tuple[int, int]]:
    """(first section, one past last section) the slice [lo:hi] covers exactly, or None if it is not aligned."""
    ps = prefix_sums(secs)
    if lo is None:
        return None
    starts = [i for i, p in enumerate(ps) if p == lo]
    if not starts:
        return None
    if hi is None:
        return None
    ends = [i for i, p in enumerate(ps) if p == hi]
    if not ends:
        return None
    # zero-length sections make prefix sums repeat: choose the widest consistent cover
    return min(starts), max(ends)


def show(l: Optional[Lin]) -> str:
    if l is None:
        return "?"
    if not l:
        return "0"
    return " + ".join((f"{v}*" if v != 1 else "") + (k or "1") if k else str(v) for k, v in sorted(l.items()))
