"""Syntactic typing of hash-ordered collections (set / frozenset) and enumeration of the places
where their iteration order can escape."""
from __future__ import annotations

import ast
from dataclasses import dataclass
from typing import Dict, Iterator, List, Optional, Set, Tuple

from .flow import defuse, names_in
from .index import FuncInfo, Index, Module, call_name, dotted, parents, walk_no_nested

SET_CTORS = {"set", "frozenset"}
SET_METHODS_RETURNING_SET = {"union", "difference", "intersection", "symmetric_difference", "copy"}
ORDER_KEEPING_WRAPPERS = {"list", "tuple", "enumerate", "iter", "reversed", "zip", "map", "filter"}
ORDER_FIXING = {"sorted", "min", "max", "sum", "any", "all", "len", "set", "frozenset"}


def _ann_is_set(ann: Optional[ast.AST]) -> bool:
    if ann is None:
        return False
    s = ast.unparse(ann)
    s = s.replace("typing.", "").replace("Optional[", "").strip()
    for pre in ("Set[", "set[", "FrozenSet[", "frozenset[", "AbstractSet[", "MutableSet["):
        if s.startswith(pre):
            return True
    return s in ("set", "Set", "frozenset")


def _ann_tuple_set_positions(ann: Optional[ast.AST]) -> Set[int]:
    """For `-> Optional[Tuple[A, Set[B], C]]` return {1}."""
    if ann is None:
        return set()
    node = ann
    # unwrap Optional[...] / X | None
    while True:
        if isinstance(node, ast.Subscript) and (dotted(node.value) or "").split(".")[-1] == "Optional":
            node = node.slice
            continue
        if isinstance(node, ast.BinOp) and isinstance(node.op, ast.BitOr):
            node = node.left if not (isinstance(node.left, ast.Constant) and node.left.value is None) else node.right
            continue
        break
    if isinstance(node, ast.Subscript) and (dotted(node.value) or "").split(".")[-1] in ("Tuple", "tuple"):
        elts = node.slice.elts if isinstance(node.slice, ast.Tuple) else [node.slice]
        return {i for i, e in enumerate(elts) if _ann_is_set(e)}
    return set()


class SetTyper:
    def __init__(self, idx: Index, m: Module, fi: Optional[FuncInfo]):
        self.idx = idx
        self.m = m
        self.fi = fi
        self.du = defuse(fi.node) if fi is not None else None
        self._cache: Dict[str, bool] = {}

    def is_set(self, e: ast.AST, depth: int = 0) -> bool:
        if depth > 6:
            return False
        if isinstance(e, (ast.Set, ast.SetComp)):
            return True
        if isinstance(e, ast.Call):
            cn = call_name(e) or ""
            if cn in SET_CTORS:
                return True
            if isinstance(e.func, ast.Attribute) and e.func.attr in SET_METHODS_RETURNING_SET and self.is_set(e.func.value, depth + 1):
                return True
            if cn == "cast" and len(e.args) == 2:
                return _ann_is_set(e.args[0]) or self.is_set(e.args[1], depth + 1)
            g = self.idx.resolve_func(self.m, cn, cls=self.fi.cls if self.fi else None, scope=self.fi) if cn else None
            if g is not None and _ann_is_set(getattr(g.node, "returns", None)):
                return True
            return False
        if isinstance(e, ast.BinOp) and isinstance(e.op, (ast.BitOr, ast.BitAnd, ast.Sub, ast.BitXor)):
            # set algebra on dict views (`a.keys() - b.keys()`, `a.items() & b.items()`) yields a plain set
            def view(x: ast.AST) -> bool:
                return isinstance(x, ast.Call) and isinstance(x.func, ast.Attribute) and x.func.attr in ("keys", "items") and not x.args
            if view(e.left) or view(e.right):
                return True
            return self.is_set(e.left, depth + 1) or self.is_set(e.right, depth + 1)
        if isinstance(e, ast.IfExp):
            return self.is_set(e.body, depth + 1) or self.is_set(e.orelse, depth + 1)
        if isinstance(e, ast.Name):
            return self._name_is_set(e.id, depth)
        if isinstance(e, ast.Attribute) and isinstance(e.value, ast.Name) and e.value.id in ("self", "cls") and self.fi is not None and self.fi.cls is not None:
            # class-level / __init__ annotation
            for c in self.idx.class_mro(self.fi.cls):
                for st in ast.walk(c.node):
                    if isinstance(st, ast.AnnAssign) and ((isinstance(st.target, ast.Attribute) and st.target.attr == e.attr) or (isinstance(st.target, ast.Name) and st.target.id == e.attr)):
                        if _ann_is_set(st.annotation):
                            return True
                    if isinstance(st, ast.Assign) and any(isinstance(t, ast.Attribute) and t.attr == e.attr and isinstance(t.value, ast.Name) and t.value.id == "self" for t in st.targets):
                        if isinstance(st.value, (ast.Set, ast.SetComp)) or (isinstance(st.value, ast.Call) and (call_name(st.value) or "") in SET_CTORS):
                            return True
            return False
        if isinstance(e, ast.Attribute):
            # `ctx.builder.used_opsets`: an attribute of another object.  Attribute names that every class of the package which
            # assigns them annotates / initialises as a set are sets wherever they are read.
            return e.attr in _set_attribute_names(self.idx)
        return False

    def _name_is_set(self, name: str, depth: int) -> bool:
        if name in self._cache:
            return self._cache[name]
        self._cache[name] = False
        res = False
        fi = self.fi
        while fi is not None and not res:
            du = defuse(fi.node)
            if name in du.defs:
                # parameter annotation
                a = fi.node.args  # type: ignore[attr-defined]
                for p in a.posonlyargs + a.args + a.kwonlyargs:
                    if p.arg == name and _ann_is_set(p.annotation):
                        res = True
                for d in du.defs[name]:
                    st = d.stmt
                    if isinstance(st, ast.AnnAssign) and isinstance(st.target, ast.Name) and st.target.id == name and _ann_is_set(st.annotation):
                        res = True
                    elif d.kind == "assign" and d.value is not None and SetTyper(self.idx, self.m, fi).is_set(d.value, depth + 1):
                        res = True
                    elif d.kind == "unpack" and d.value is not None and d.index is not None:
                        # x, s = helper(...)   with helper annotated -> Tuple[..., Set[..]]
                        v = d.value
                        srcs = [v]
                        if isinstance(v, ast.Name):
                            srcs = du.values(v.id)
                        for sv in srcs:
                            if isinstance(sv, ast.Call):
                                g = self.idx.resolve_func(self.m, call_name(sv) or "", cls=fi.cls, scope=fi)
                                if g is not None and d.index in _ann_tuple_set_positions(getattr(g.node, "returns", None)):
                                    res = True
                break
            fi = fi.parent_func
        if not res and (fi is None):
            # module-level
            for st in self.m.tree.body:
                if isinstance(st, ast.AnnAssign) and isinstance(st.target, ast.Name) and st.target.id == name and _ann_is_set(st.annotation):
                    res = True
                if isinstance(st, ast.Assign) and any(isinstance(t, ast.Name) and t.id == name for t in st.targets) and (isinstance(st.value, (ast.Set, ast.SetComp)) or (isinstance(st.value, ast.Call) and (call_name(st.value) or "") in SET_CTORS)):
                    res = True
        self._cache[name] = res
        return res


_SET_ATTR_CACHE: dict = {}


def _set_attribute_names(idx: Index) -> Set[str]:
    key = id(idx)
    if key in _SET_ATTR_CACHE:
        return _SET_ATTR_CACHE[key]
    votes: dict = {}
    for m in idx.product_modules():
        for st in ast.walk(m.tree):
            tgt = val = ann = None
            if isinstance(st, ast.AnnAssign) and isinstance(st.target, ast.Attribute) and isinstance(st.target.value, ast.Name) and st.target.value.id == "self":
                tgt, val, ann = st.target.attr, st.value, st.annotation
            elif isinstance(st, ast.Assign) and len(st.targets) == 1 and isinstance(st.targets[0], ast.Attribute) and isinstance(st.targets[0].value, ast.Name) and st.targets[0].value.id == "self":
                tgt, val = st.targets[0].attr, st.value
            if tgt is None:
                continue
            is_set = (ann is not None and _ann_is_set(ann)) or isinstance(val, (ast.Set, ast.SetComp)) or (isinstance(val, ast.Call) and (call_name(val) or "") in SET_CTORS)
            if ann is None and val is not None and not is_set and not isinstance(val, (ast.Constant,)):
                # an un-annotated assignment from something else: unknown, counts against
                votes.setdefault(tgt, []).append(False)
            elif is_set:
                votes.setdefault(tgt, []).append(True)
            elif ann is not None:
                votes.setdefault(tgt, []).append(False)
    out = {a for a, v in votes.items() if v and all(v)}
    _SET_ATTR_CACHE[key] = out
    return out


@dataclass
class SetIteration:
    module: Module
    func: Optional[FuncInfo]
    node: ast.AST           # For / comprehension / Call (list(S), S.pop(), next(iter(S)))
    iter_expr: ast.AST
    kind: str               # for | comp | materialize | pop


def unwrap_order_keeping(e: ast.AST) -> Tuple[ast.AST, bool]:
    """Strip list()/tuple()/enumerate()/reversed()/iter() — they keep the underlying order.
    Returns (inner, fixed) where fixed=True if a sorted() was crossed."""
    fixed = False
    while isinstance(e, ast.Call):
        cn = call_name(e) or ""
        if cn in ORDER_KEEPING_WRAPPERS and e.args:
            e = e.args[0]
            continue
        if cn == "cast" and len(e.args) == 2:
            e = e.args[1]
            continue
        if cn == "sorted":
            fixed = True
        break
    return e, fixed


def set_iterations(idx: Index, mods: List[Module]) -> Iterator[SetIteration]:
    for m in mods:
        for n in ast.walk(m.tree):
            fi = m.func_containing(n)
            it = None
            kind = ""
            if isinstance(n, (ast.For, ast.AsyncFor)):
                it, kind = n.iter, "for"
            elif isinstance(n, ast.comprehension):
                it, kind = n.iter, "comp"
            elif isinstance(n, ast.Call):
                cn = call_name(n) or ""
                if cn in ("list", "tuple") and n.args and not isinstance(getattr(n, "parent", None), (ast.For, ast.comprehension)):
                    it, kind = n.args[0], "materialize"
                elif isinstance(n.func, ast.Attribute) and n.func.attr == "pop" and not n.args:
                    it, kind = n.func.value, "pop"
                elif cn == "next" and n.args and isinstance(n.args[0], ast.Call) and (call_name(n.args[0]) or "") == "iter" and n.args[0].args:
                    it, kind = n.args[0].args[0], "pop"
            if it is None:
                continue
            inner, fixed = unwrap_order_keeping(it)
            if fixed:
                continue
            if SetTyper(idx, m, fi).is_set(inner):
                yield SetIteration(m, fi, n, inner, kind)
