"""Enumerate ONNX node emission sites in the converter and plugins.

Forms recognised (measured on the pinned tree: ~1730 direct `…builder.<Op>(…)` calls):
  A  <recv>.builder.<Op>(inputs…, attr=…, _outputs=[…])   /  builder.<Op>(…)
  B  getattr(<builder>, NAME)(…)  or  m = getattr(<builder>, NAME[, None]); m(…)
  C  ir.Node(domain, OP, …) / ir.Node(op_type=OP, …) / ir.node(OP, …)
  D  <builder>.add_node(OP | op_type=OP, …), <builder>.op(OP, …), <builder>.op_multi_out(OP, …)
For B–D with a non-constant NAME the name is constant-propagated: local assignments,
constant tables (`TABLE[k]`, `TABLE.get(k)` -> every value), loop variables over constant
tuples, class constants, and function parameters through every resolved call site (depth 4).
"""
from __future__ import annotations

import ast
from dataclasses import dataclass, field
from typing import Dict, List, Optional, Set, Tuple

from .callgraph import CallGraph, CallSite, arg_for_param
from .flow import defuse
from .index import FuncInfo, Index, Module, call_name, dotted, fold_const, is_const, last_name, parents

DYN_CALLEES = {"add_node", "op", "op_multi_out"}


@dataclass
class EmitSite:
    module: Module
    call: ast.Call                  # the call that creates the node
    func: Optional[FuncInfo]
    op: Optional[str]               # None = unresolved dynamic name
    form: str                       # A|B|C|D
    attrs: List[str] = field(default_factory=list)   # attribute names given as keywords
    n_inputs: Optional[int] = None  # positional inputs given (None = unknown)
    n_outputs: Optional[int] = None
    chain: List[CallSite] = field(default_factory=list)  # call sites the op name travelled through (outermost first)
    domain: Optional[str] = ""
    why_unresolved: str = ""

    @property
    def site(self) -> str:
        first = self.chain[0] if self.chain else None
        if first is not None:
            return f"{first.module.rel}:{first.call.lineno}"
        return f"{self.module.rel}:{self.call.lineno}"

    @property
    def origin_func(self) -> Optional[FuncInfo]:
        return self.chain[0].caller if self.chain else self.func

    @property
    def origin_module(self) -> Module:
        return self.chain[0].module if self.chain else self.module


def is_builder_recv(e: ast.AST, mod: Module, fi: Optional[FuncInfo] = None) -> bool:
    d = dotted(e)
    if d is None:
        # _require_builder(ctx).Op(...)
        if isinstance(e, ast.Call):
            cn = call_name(e) or ""
            return "builder" in cn.lower()
        return False
    head = d.split(".")[0]
    if head in mod.imports:
        return False
    last = d.split(".")[-1].lower()
    return last.endswith("builder") or last in ("bld", "_b")


class NameResolver:
    """Constant-propagate a string-valued expression to the set of strings it can take."""

    def __init__(self, idx: Index, cg: CallGraph, max_depth: int = 4):
        self.idx = idx
        self.cg = cg
        self.max_depth = max_depth

    def resolve(self, e: ast.AST, fi: Optional[FuncInfo], mod: Module, depth: int = 0, chain: Optional[List[CallSite]] = None, _seen: Optional[Set[Tuple[int, str]]] = None) -> List[Tuple[Optional[str], List[CallSite], str]]:
        """-> list of (string | None, call chain, reason-if-None)"""
        chain = chain or []
        _seen = _seen or set()
        env = mod.class_env(fi.cls if fi else None)
        c = fold_const(e, env)
        if is_const(c):
            if isinstance(c, str):
                return [(c, chain, "")]
            if c is None:
                return []
            return [(None, chain, f"non-string constant {c!r}")]
        if depth > self.max_depth:
            return [(None, chain, "depth bound")]
        if isinstance(e, ast.IfExp):
            return self.resolve(e.body, fi, mod, depth, chain, _seen) + self.resolve(e.orelse, fi, mod, depth, chain, _seen)
        if isinstance(e, ast.BoolOp) and isinstance(e.op, ast.Or):
            out = []
            for v in e.values:
                out += self.resolve(v, fi, mod, depth, chain, _seen)
            return out
        if isinstance(e, ast.Call):
            cn = call_name(e) or ""
            if cn in ("str", "cast") and e.args:
                return self.resolve(e.args[-1], fi, mod, depth, chain, _seen)
            if cn.endswith(".get") and isinstance(e.func, ast.Attribute):
                tab = fold_const(e.func.value, env)
                if is_const(tab) and isinstance(tab, dict):
                    out = [(v, chain, "") if isinstance(v, str) else (None, chain, "table value not a string") for v in tab.values() if v is not None]
                    if len(e.args) > 1:
                        out += self.resolve(e.args[1], fi, mod, depth, chain, _seen)
                    return out
            return [(None, chain, f"result of call {cn or '?'}()")]
        if isinstance(e, ast.Subscript):
            tab = fold_const(e.value, env)
            if is_const(tab) and isinstance(tab, dict):
                return [(v, chain, "") if isinstance(v, str) else (None, chain, "table value not a string") for v in tab.values()]
            if is_const(tab) and isinstance(tab, (tuple, list)):
                return [(v, chain, "") if isinstance(v, str) else (None, chain, "element not a string") for v in tab]
            return [(None, chain, "subscript of non-constant")]
        if isinstance(e, ast.Attribute) and isinstance(e.value, ast.Name) and e.value.id in ("self", "cls") and fi is not None and fi.cls is not None:
            vals = []
            for ci in self._subclasses(fi.cls):
                v = self.idx.class_const(ci, e.attr)
                if is_const(v) and isinstance(v, str):
                    vals.append((v, chain, ""))
            return vals or [(None, chain, f"class attribute {e.attr} not constant")]
        if isinstance(e, ast.Name):
            cur = fi
            while cur is not None:
                du = defuse(cur.node)
                if e.id in du.defs:
                    out: List[Tuple[Optional[str], List[CallSite], str]] = []
                    for d in du.defs[e.id]:
                        if d.kind == "param":
                            key = (id(cur.node), e.id)
                            if key in _seen:
                                continue
                            out += self._through_param(cur, e.id, depth, chain, _seen | {key})
                        elif d.kind in ("for", "comp") and d.value is not None:
                            it = fold_const(d.value, cur.module.class_env(cur.cls))
                            if is_const(it) and isinstance(it, (tuple, list, frozenset)):
                                for el in it:
                                    if d.index is not None and isinstance(el, (tuple, list)) and d.index < len(el):
                                        el = el[d.index]
                                    out.append((el, chain, "") if isinstance(el, str) else (None, chain, "loop element not a string"))
                            elif is_const(it) and isinstance(it, dict):
                                for k in it:
                                    out.append((k, chain, "") if isinstance(k, str) else (None, chain, "loop key not a string"))
                            else:
                                out.append((None, chain, "loop over non-constant"))
                        elif d.kind == "unpack" and d.value is not None and d.index is not None:
                            out.append((None, chain, "tuple-unpacked value"))
                        elif d.value is not None:
                            key = (id(d.value), e.id)
                            if key in _seen:
                                continue
                            out += self.resolve(d.value, cur, cur.module, depth, chain, _seen | {key})
                    return out
                cur = cur.parent_func
            return [(None, chain, f"free name {e.id}")]
        return [(None, chain, f"expression {type(e).__name__}")]

    def _through_param(self, f: FuncInfo, pname: str, depth: int, chain: List[CallSite], _seen) -> List[Tuple[Optional[str], List[CallSite], str]]:
        callers = self.cg.callers_of(f)
        out: List[Tuple[Optional[str], List[CallSite], str]] = []
        if not callers:
            # default value only
            a = f.node.args  # type: ignore[attr-defined]
            return [(None, chain, f"parameter {pname} of {f.qualname} (no resolved call sites)")]
        for cs in callers:
            how, expr = arg_for_param(cs, pname)
            if expr is None:
                out.append((None, [cs] + chain, f"argument for {pname} not found ({how})"))
                continue
            new_chain = chain if how == "default" else [cs] + chain
            fi2 = cs.caller if how != "default" else f
            mod2 = cs.module if how != "default" else f.module
            out += self.resolve(expr, fi2, mod2, depth + 1, new_chain, _seen)
        return out

    def _subclasses(self, cls) -> List:
        out = []
        for m in self.idx.modules.values():
            for c in m.classes.values():
                if cls in self.idx.class_mro(c):
                    out.append(c)
        return out


def _count_pos(call: ast.Call) -> Optional[int]:
    if any(isinstance(a, ast.Starred) for a in call.args):
        return None
    return len(call.args)


def _attrs(call: ast.Call) -> List[str]:
    out = []
    for k in call.keywords:
        if k.arg is None or k.arg.startswith("_"):
            continue
        if isinstance(k.value, ast.Constant) and k.value.value is None:
            continue
        out.append(k.arg)
    return out


def _n_outputs(call: ast.Call) -> Optional[int]:
    for k in call.keywords:
        if k.arg == "_outputs":
            if isinstance(k.value, (ast.List, ast.Tuple)) and not any(isinstance(x, ast.Starred) for x in k.value.elts):
                return len(k.value.elts)
            return None
    return None


def enumerate_sites(idx: Index, cg: CallGraph, known_ops: Set[str], *, skip_rel: Tuple[str, ...] = ("jax2onnx/plugins/_post_check_onnx_graph.py",)) -> Tuple[List[EmitSite], Dict[str, int]]:
    res = NameResolver(idx, cg)
    sites: List[EmitSite] = []
    stats = {"A": 0, "B": 0, "C": 0, "D": 0, "non_builder_receivers": 0}
    for m in idx.product_modules():
        if m.rel in skip_rel:
            continue
        for n in ast.walk(m.tree):
            if not isinstance(n, ast.Call):
                continue
            fi = m.func_containing(n)
            f = n.func
            # ---- form A
            if isinstance(f, ast.Attribute) and f.attr in known_ops and f.attr[:1].isupper():
                if is_builder_recv(f.value, m, fi):
                    sites.append(EmitSite(m, n, fi, f.attr, "A", _attrs(n), _count_pos(n), _n_outputs(n)))
                    stats["A"] += 1
                    continue
                head = (dotted(f.value) or "").split(".")[0]
                if head not in m.imports:
                    stats["non_builder_receivers"] += 1
                    sites.append(EmitSite(m, n, fi, None, "A", why_unresolved=f"receiver `{dotted(f.value)}` of .{f.attr}() not recognised as a builder"))
                continue
            # ---- form B: getattr(builder, NAME)
            cn = call_name(n) or ""
            if cn == "getattr" and len(n.args) >= 2 and is_builder_recv(n.args[0], m, fi):
                name_e = n.args[1]
                c = fold_const(name_e, m.class_env(fi.cls if fi else None))
                if is_const(c) and isinstance(c, str) and not (c in known_ops):
                    continue  # getattr(builder, "opset") etc.
                use_calls = _uses_of_getattr(n, fi)
                if use_calls is None:
                    continue  # not called (e.g. hasattr-like probing)
                for val, chain, why in _dedupe(res.resolve(name_e, fi, m)):
                    if val is not None and val not in known_ops:
                        continue  # e.g. "initializers": attribute probing, not an operator
                    for uc in use_calls:
                        extra, _complete = splat_attr_names(uc, fi, chain)
                        sites.append(EmitSite(m, uc, fi, val, "B", sorted(set(_attrs(uc)) | set(extra)), _count_pos(uc), _n_outputs(uc), chain, why_unresolved=why))
                        stats["B"] += 1
                continue
            # ---- form C: ir.Node(...)
            last = last_name(f)
            if last in ("Node", "node") and (m.resolve(dotted(f) or "").startswith("onnx_ir") or (dotted(f) or "").startswith("ir.")):
                op_e = None
                dom_e = None
                for k in n.keywords:
                    if k.arg == "op_type":
                        op_e = k.value
                    if k.arg == "domain":
                        dom_e = k.value
                if op_e is None:
                    if last == "Node" and len(n.args) >= 2:
                        dom_e, op_e = n.args[0], n.args[1]
                    elif last == "node" and n.args:
                        op_e = n.args[0]
                if op_e is None:
                    continue
                dom = fold_const(dom_e, m.class_env(fi.cls if fi else None)) if dom_e is not None else ""
                if is_const(dom) and dom not in ("", "ai.onnx", None):
                    continue  # custom-domain (function call) node
                for val, chain, why in _dedupe(res.resolve(op_e, fi, m)):
                    sites.append(EmitSite(m, n, fi, val, "C", [], None, None, chain, domain=dom if is_const(dom) else None, why_unresolved=why))
                    stats["C"] += 1
                continue
            # ---- form D: builder.add_node("Op") / builder.op("Op", ...) / op_multi_out
            if isinstance(f, ast.Attribute) and f.attr in DYN_CALLEES and is_builder_recv(f.value, m, fi):
                op_e = None
                dom_e = None
                for k in n.keywords:
                    if k.arg == "op_type":
                        op_e = k.value
                    if k.arg == "domain":
                        dom_e = k.value
                if op_e is None and n.args:
                    op_e = n.args[0]
                if op_e is None:
                    continue
                c0 = fold_const(op_e, m.class_env(fi.cls if fi else None))
                if not is_const(c0) and f.attr == "add_node" and not any(k.arg == "op_type" for k in n.keywords):
                    # add_node(node_obj): the node object was created by ir.Node (form C)
                    if not isinstance(op_e, ast.Constant):
                        nm = dotted(op_e) or ""
                        if isinstance(op_e, ast.Call) or "node" in nm.lower():
                            continue
                dom = fold_const(dom_e, m.class_env(fi.cls if fi else None)) if dom_e is not None else ""
                if is_const(dom) and dom not in ("", "ai.onnx", None):
                    continue
                if dom_e is not None and not is_const(dom):
                    continue  # dynamic domain: function-call nodes (plugin_system)
                for val, chain, why in _dedupe(res.resolve(op_e, fi, m)):
                    sites.append(EmitSite(m, n, fi, val, "D", [], None, None, chain, why_unresolved=why))
                    stats["D"] += 1
    return sites, stats


def _unconditional_wrt(stmt: ast.AST, use: ast.AST) -> bool:
    """Every `if` enclosing stmt also encloses use (so the addition happens whenever the use does)."""
    use_anc = {id(p) for p in parents(use)}
    for p in parents(stmt):
        if isinstance(p, (ast.If, ast.IfExp, ast.Try, ast.For, ast.While)) and id(p) not in use_anc:
            return False
        if isinstance(p, (ast.FunctionDef, ast.AsyncFunctionDef)):
            break
    return True


def splat_attr_names(uc: ast.Call, fi: Optional[FuncInfo], chain: List[CallSite]) -> Tuple[List[str], bool]:
    """Attribute names supplied through `**mapping` at a builder call inside a helper: follow the mapping to a
    parameter of the helper and read the dict literal the innermost call site passes for it.
    -> (names, complete): complete=False when some splat could not be resolved."""
    names: List[str] = []
    complete = True
    splats = [k.value for k in uc.keywords if k.arg is None]
    if not splats:
        return names, True
    if fi is None:
        return names, False
    du = defuse(fi.node)
    for sp in splats:
        params = [n for n in du.closure({x.id for x in ast.walk(sp) if isinstance(x, ast.Name)}) if du.is_param(n)]
        # literal additions inside the helper:  attrs_dict["axis"] = …  /  dict(a=1)
        for nm in du.closure({x.id for x in ast.walk(sp) if isinstance(x, ast.Name)}):
            for d in du.defs.get(nm, []):
                if d.kind == "setitem" and isinstance(d.stmt, ast.Assign) and _unconditional_wrt(d.stmt, uc):
                    for t in d.stmt.targets:
                        if isinstance(t, ast.Subscript) and isinstance(t.slice, ast.Constant) and isinstance(t.slice.value, str):
                            names.append(t.slice.value)
                if d.value is not None and isinstance(d.value, ast.Dict):
                    for k in d.value.keys:
                        if isinstance(k, ast.Constant) and isinstance(k.value, str):
                            names.append(k.value)
                        else:
                            complete = False
        if not params:
            continue
        cs = chain[-1] if chain else None
        if cs is None or cs.callee is not fi:
            complete = False
            continue
        for pn in params:
            how, expr = arg_for_param(cs, pn)
            if expr is None or (isinstance(expr, ast.Constant) and expr.value is None):
                continue
            cand = [expr]
            if isinstance(expr, ast.Name) and cs.caller is not None:
                cdu = defuse(cs.caller.node)
                cand = []
                for d in cdu.defs.get(expr.id, []):
                    if d.kind == "setitem" and isinstance(d.stmt, ast.Assign):
                        # the operator is fixed at this call site: every key the caller may add must be valid for it
                        for t in d.stmt.targets:
                            if isinstance(t, ast.Subscript) and isinstance(t.slice, ast.Constant) and isinstance(t.slice.value, str):
                                names.append(t.slice.value)
                            elif isinstance(t, ast.Subscript):
                                complete = False
                    elif d.value is not None:
                        cand.append(d.value)
                if not cand and not names:
                    cand = [expr]
            for e in cand:
                if isinstance(e, ast.Dict):
                    for k in e.keys:
                        if isinstance(k, ast.Constant) and isinstance(k.value, str):
                            names.append(k.value)
                        else:
                            complete = False
                elif isinstance(e, ast.Call) and (call_name(e) or "") == "dict" and not e.args:
                    names += [k.arg for k in e.keywords if k.arg]
                elif isinstance(e, ast.Constant) and e.value is None:
                    pass
                else:
                    complete = False
    return sorted(set(names)), complete


def _dedupe(items):
    seen = set()
    out = []
    for val, chain, why in items:
        key = (val, tuple(id(c.call) for c in chain), why if val is None else "")
        if key in seen:
            continue
        seen.add(key)
        out.append((val, chain, why))
    return out


def _uses_of_getattr(call: ast.Call, fi: Optional[FuncInfo]) -> Optional[List[ast.Call]]:
    """Calls that invoke the result of `getattr(builder, NAME)`: direct `getattr(..)(...)`, or through
    a local `m = getattr(..)` ... `m(...)`.  None if the result is never called."""
    p = getattr(call, "parent", None)
    if isinstance(p, ast.Call) and p.func is call:
        return [p]
    # cast(Any, getattr(...))(...)
    if isinstance(p, ast.Call) and (call_name(p) or "") == "cast":
        pp = getattr(p, "parent", None)
        if isinstance(pp, ast.Call) and pp.func is p:
            return [pp]
    tgt = None
    st = p
    while st is not None and not isinstance(st, ast.stmt):
        st = getattr(st, "parent", None)
    if isinstance(st, ast.Assign) and len(st.targets) == 1 and isinstance(st.targets[0], ast.Name):
        tgt = st.targets[0].id
    elif isinstance(st, ast.AnnAssign) and isinstance(st.target, ast.Name):
        tgt = st.target.id
    if tgt is None or fi is None:
        return None
    uses = [n for n in ast.walk(fi.node) if isinstance(n, ast.Call) and isinstance(n.func, ast.Name) and n.func.id == tgt]
    # cast(...)(…) wrappers around the local
    return uses or None
