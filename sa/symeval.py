"""Finite-domain abstract evaluation of small, pure decision procedures.

Used for C17 (and small predicate helpers): the decision function's domain is a finite set of
element-type codes, and the helpers only compare / add small integers.  The evaluator walks the
function's expression trees over abstract values (ints, bools, None, tuples, element-type
symbols); nothing of jax2onnx is imported.  Any construct outside the supported subset raises
Unsupported and the rule reports UNRESOLVED (never a violation).
"""
from __future__ import annotations

import ast
import operator
from dataclasses import dataclass
from typing import Any, Callable, Dict, List, Optional, Tuple

from .index import FuncInfo, Index, Module, call_name, dotted


class Unsupported(Exception):
    pass


class EvalRaise(Exception):
    """The evaluated code raises (e.g. ValueError from ir.DataType(code))."""

    def __init__(self, name: str, explicit: bool = False):
        super().__init__(name)
        self.name = name
        self.explicit = explicit   # raised by a `raise` statement of the interpreted code (a deliberate rejection)


@dataclass(frozen=True)
class DT:
    """An onnx_ir.DataType member, as a symbol with its library-defined facts."""
    name: str
    code: int
    integer: bool
    signed: bool
    bits: Optional[int]
    floating: bool
    np_itemsize: Optional[int] = None   # bytes per element of the numpy storage type (sub-byte types are stored in one byte)

    def __int__(self) -> int:
        return self.code


class Obj:
    """An abstract object with named attributes; callable attributes act as methods.  `kind` answers isinstance()."""
    def __init__(self, kind: str, **attrs: Any):
        self.kind = kind
        self.attrs = attrs

    def __repr__(self) -> str:
        return f"<{self.kind} {self.attrs.get('name', '')!r}>"


def _repr(v: Any) -> str:
    if isinstance(v, Obj):
        return f"{v.kind}({v.attrs.get('value')!r})"
    if isinstance(v, DT):
        return f"DataType.{v.name}"
    return repr(v)


def _str(v: Any) -> str:
    return _repr(v) if isinstance(v, (Obj, DT)) else str(v)


class _MutSet(set):
    """`set()` created empty by the interpreted code (mutable; set literals / comprehensions stay frozen)."""


class Opaque:
    """A value the analysis does not look into (free names, dtype objects, primitive handles, flags passed through)."""
    def __init__(self, name: str):
        self.name = name

    def __repr__(self) -> str:
        return f"<{self.name}>"


class Closure:
    """A lambda / nested def evaluated in its defining environment (captured by reference, like Python)."""
    def __init__(self, ev: "Evaluator", node: ast.AST, env: Dict[str, Any], fi: "FuncInfo", depth: int):
        self.ev, self.node, self.env, self.fi, self.depth = ev, node, env, fi, depth

    def __call__(self, *args: Any, **kwargs: Any) -> Any:
        ev = self.ev
        if self.depth > ev.max_depth:
            raise Unsupported("call depth")
        a = self.node.args  # type: ignore[attr-defined]
        names = [x.arg for x in a.posonlyargs + a.args]
        local = dict(self.env)
        if a.vararg is not None:
            local[a.vararg.arg] = tuple(args[len(names):])
            args = args[: len(names)]
        if len(args) > len(names):
            raise EvalRaise("TypeError")
        for n, v in zip(names, args):
            local[n] = v
        kwonly = [x.arg for x in a.kwonlyargs]
        extra = {}
        for k, v in kwargs.items():
            if k in names or k in kwonly:
                local[k] = v
            else:
                extra[k] = v
        if a.kwarg is not None:
            local[a.kwarg.arg] = extra
        elif extra:
            raise EvalRaise("TypeError")
        bound = set(names[: len(args)]) | (set(kwargs) - set(extra))
        for n, d in zip(names[len(names) - len(a.defaults):], a.defaults):
            if n not in bound:
                local[n] = ev.eval(d, self.env, self.fi, self.depth)
                bound.add(n)
        for x, d in zip(a.kwonlyargs, a.kw_defaults):
            if x.arg not in bound and d is not None:
                local[x.arg] = ev.eval(d, self.env, self.fi, self.depth)
                bound.add(x.arg)
        if any(n not in bound for n in names + kwonly):
            raise EvalRaise("TypeError")
        if isinstance(self.node, ast.Lambda):
            return ev.eval(self.node.body, local, self.fi, self.depth + 1)
        try:
            ev.block(self.node.body, local, self.fi, self.depth + 1)  # type: ignore[attr-defined]
        except _Return as r:
            return r.value
        return None


class _Continue(Exception):
    pass


class _Break(Exception):
    pass


class _Return(Exception):
    def __init__(self, value: Any):
        self.value = value


_CMP = {
    ast.Eq: operator.eq, ast.NotEq: operator.ne, ast.Lt: operator.lt, ast.LtE: operator.le,
    ast.Gt: operator.gt, ast.GtE: operator.ge, ast.Is: lambda a, b: a is b or (isinstance(a, DT) and a == b),
    ast.IsNot: lambda a, b: not (a is b or (isinstance(a, DT) and a == b)),
    ast.In: lambda a, b: a in b, ast.NotIn: lambda a, b: a not in b,
}
_BIN = {
    ast.Add: operator.add, ast.Sub: operator.sub, ast.Mult: operator.mul, ast.LShift: operator.lshift,
    ast.RShift: operator.rshift, ast.FloorDiv: operator.floordiv, ast.Mod: operator.mod, ast.Pow: operator.pow,
    ast.BitOr: operator.or_, ast.BitAnd: operator.and_,
}


class Evaluator:
    def __init__(self, idx: Index, dtypes: Dict[str, DT], stubs: Optional[Dict[str, Callable[..., Any]]] = None, max_depth: int = 8):
        self.idx = idx
        self.dtypes = dtypes
        self.by_code = {d.code: d for d in dtypes.values()}
        self.stubs = stubs or {}
        self.max_depth = max_depth
        self.steps = 0
        self.consts: Dict[str, Any] = {}          # dotted name -> value (e.g. "batching.not_mapped": None)
        self.call_hook: Optional[Callable[..., Any]] = None   # (call name, args, kwargs) -> value | NotImplemented
        self._cur: Optional[Tuple[Any, int]] = None

    # ------------------------------------------------------------------
    def call(self, fi: FuncInfo, args: List[Any], kwargs: Optional[Dict[str, Any]] = None, depth: int = 0) -> Any:
        if depth > self.max_depth:
            raise Unsupported("call depth")
        a = fi.node.args  # type: ignore[attr-defined]
        if (a.vararg is not None or a.kwarg is not None) and fi.cls is None:
            return Closure(self, fi.node, {}, fi, depth)(*args, **(kwargs or {}))
        names = [x.arg for x in a.posonlyargs + a.args]
        if fi.cls is not None and names and names[0] in ("self", "cls"):
            names = names[1:]
        env: Dict[str, Any] = {}
        if len(args) > len(names):
            raise Unsupported("too many positional arguments")
        for n, v in zip(names, args):
            env[n] = v
        for k, v in (kwargs or {}).items():
            env[k] = v
        defaults = a.defaults
        for n, d in zip(names[len(names) - len(defaults):], defaults):
            if n not in env:
                env[n] = self.eval(d, {}, fi, depth)
        for x, d in zip(a.kwonlyargs, a.kw_defaults):
            if x.arg not in env and d is not None:
                env[x.arg] = self.eval(d, {}, fi, depth)
        for n in names:
            if n not in env:
                raise Unsupported(f"missing argument {n}")
        try:
            self.block(fi.node.body, env, fi, depth)  # type: ignore[attr-defined]
        except _Return as r:
            return r.value
        return None

    def block(self, stmts: List[ast.stmt], env: Dict[str, Any], fi: FuncInfo, depth: int) -> None:
        for st in stmts:
            self._cur = (fi, depth)
            self.steps += 1
            if self.steps > 5_000_000:
                raise Unsupported("step budget")
            if isinstance(st, ast.Expr):
                if isinstance(st.value, ast.Constant):
                    continue
                self.eval(st.value, env, fi, depth)
            elif isinstance(st, ast.Return):
                raise _Return(self.eval(st.value, env, fi, depth) if st.value is not None else None)
            elif isinstance(st, ast.Assign):
                v = self.eval(st.value, env, fi, depth)
                for t in st.targets:
                    self.assign(t, v, env)
            elif isinstance(st, ast.AnnAssign):
                if st.value is not None:
                    self.assign(st.target, self.eval(st.value, env, fi, depth), env)
            elif isinstance(st, ast.If):
                if self.truth(self.eval(st.test, env, fi, depth)):
                    self.block(st.body, env, fi, depth)
                else:
                    self.block(st.orelse, env, fi, depth)
            elif isinstance(st, ast.Try):
                try:
                    self.block(st.body, env, fi, depth)
                except EvalRaise as e:
                    for h in st.handlers:
                        names = set()
                        if h.type is not None:
                            for t in (h.type.elts if isinstance(h.type, ast.Tuple) else [h.type]):
                                names.add(dotted(t) or "")
                        if h.type is None or e.name in names or "Exception" in names:
                            self.block(h.body, env, fi, depth)
                            break
                    else:
                        raise
                else:
                    self.block(st.orelse, env, fi, depth)
                finally:
                    if st.finalbody:
                        self.block(st.finalbody, env, fi, depth)
            elif isinstance(st, ast.Raise):
                nm = "Exception"
                if st.exc is not None:
                    nm = (call_name(st.exc) if isinstance(st.exc, ast.Call) else dotted(st.exc)) or "Exception"
                raise EvalRaise(nm, explicit=True)
            elif isinstance(st, ast.Pass):
                continue
            elif isinstance(st, ast.FunctionDef) and not st.decorator_list:
                env[st.name] = Closure(self, st, env, fi, depth)
            elif isinstance(st, (ast.Import, ast.ImportFrom)):
                # a function-local import: package functions become callable by their local name
                if isinstance(st, ast.ImportFrom) and st.module and st.level == 0:
                    mod = self.idx.modules.get(st.module)
                    for al in st.names:
                        g = mod.funcs.get(al.name) if mod is not None else None
                        if g is not None:
                            env[al.asname or al.name] = (lambda g_: (lambda *a, **k: self.call(g_, list(a), k, depth + 1)))(g)
            elif isinstance(st, ast.Delete):
                for tg in st.targets:
                    if isinstance(tg, ast.Name):
                        env.pop(tg.id, None)
                    else:
                        raise Unsupported("delete target")
            elif isinstance(st, ast.For) and not st.orelse:
                it = self.eval(st.iter, env, fi, depth)
                if isinstance(it, Opaque):
                    raise Unsupported("iteration over an opaque value")
                if not isinstance(it, (list, tuple, frozenset, range, dict)):
                    raise EvalRaise("TypeError") if it is None or isinstance(it, (int, float)) else Unsupported("iteration over an abstract value")
                for item in list(it):
                    self.assign(st.target, item, env)
                    try:
                        self.block(st.body, env, fi, depth)
                    except _Continue:
                        continue
                    except _Break:
                        break
            elif isinstance(st, ast.Continue):
                raise _Continue()
            elif isinstance(st, ast.Break):
                raise _Break()
            elif isinstance(st, ast.AugAssign) and isinstance(st.target, ast.Name):
                fn = _BIN.get(type(st.op))
                if fn is None or st.target.id not in env:
                    raise Unsupported("augmented assignment")
                env[st.target.id] = fn(env[st.target.id], self.eval(st.value, env, fi, depth))
            else:
                raise Unsupported(f"statement {type(st).__name__} at line {st.lineno}")

    def assign(self, t: ast.expr, v: Any, env: Dict[str, Any]) -> None:
        if isinstance(t, ast.Name):
            env[t.id] = v
        elif isinstance(t, (ast.Tuple, ast.List)):
            if not isinstance(v, (tuple, list)) or len(v) != len(t.elts):
                raise Unsupported("unpack mismatch")
            for e, x in zip(t.elts, v):
                self.assign(e, x, env)
        elif isinstance(t, ast.Subscript) and isinstance(t.value, ast.Name) and t.value.id in env and isinstance(env[t.value.id], (dict, list)) and self._cur is not None:
            k = self.eval(t.slice, env, self._cur[0], self._cur[1])
            try:
                env[t.value.id][k] = v
            except Exception:
                raise EvalRaise("IndexError")
        else:
            raise Unsupported("assignment target")

    @staticmethod
    def truth(v: Any) -> bool:
        if isinstance(v, DT):
            return v.code != 0
        return bool(v)

    def eval(self, e: Optional[ast.expr], env: Dict[str, Any], fi: FuncInfo, depth: int) -> Any:
        if e is None:
            return None
        if isinstance(e, ast.Constant):
            return e.value
        if isinstance(e, ast.Name):
            if e.id in env:
                return env[e.id]
            c = fi.module.consts.get(e.id, Unsupported)
            if c is not Unsupported:
                return c
            if e.id in ("True", "False", "None"):
                return {"True": True, "False": False, "None": None}[e.id]
            raise Unsupported(f"free name {e.id}")
        if isinstance(e, ast.Lambda):
            return Closure(self, e, env, fi, depth)
        if isinstance(e, ast.Attribute):
            d = dotted(e)
            if d is not None and d in self.consts:
                return self.consts[d]
            if d is not None:
                parts = d.split(".")
                if len(parts) >= 2 and parts[-2] == "DataType" and parts[-1] in self.dtypes:
                    return self.dtypes[parts[-1]]
            base = self.eval(e.value, env, fi, depth)
            if isinstance(base, Obj):
                if e.attr in base.attrs:
                    return base.attrs[e.attr]
                raise EvalRaise("AttributeError")
            if isinstance(base, DT):
                if e.attr == "bitwidth":
                    if base.bits is None:
                        raise EvalRaise("TypeError")
                    return base.bits
                if e.attr == "name":
                    return base.name
                if e.attr == "value":
                    return base.code
                if e.attr == "itemsize":
                    if base.bits is None:
                        raise EvalRaise("TypeError")
                    return base.bits / 8
            raise Unsupported(f"attribute {e.attr}")
        if isinstance(e, ast.Tuple):
            return tuple(self.eval(x, env, fi, depth) for x in e.elts)
        if isinstance(e, ast.List):
            return [self.eval(x, env, fi, depth) for x in e.elts]
        if isinstance(e, ast.Set):
            return frozenset(self.eval(x, env, fi, depth) for x in e.elts)
        if isinstance(e, ast.Dict):
            return {self.eval(k, env, fi, depth): self.eval(v, env, fi, depth) for k, v in zip(e.keys, e.values)}
        if isinstance(e, ast.UnaryOp):
            v = self.eval(e.operand, env, fi, depth)
            if isinstance(e.op, ast.Not):
                return not self.truth(v)
            if isinstance(e.op, ast.USub):
                return -v
            raise Unsupported("unary op")
        if isinstance(e, ast.BoolOp):
            v = None
            for x in e.values:
                v = self.eval(x, env, fi, depth)
                if isinstance(e.op, ast.And) and not self.truth(v):
                    return v
                if isinstance(e.op, ast.Or) and self.truth(v):
                    return v
            return v
        if isinstance(e, ast.Compare):
            left = self.eval(e.left, env, fi, depth)
            for op, c in zip(e.ops, e.comparators):
                right = self.eval(c, env, fi, depth)
                fn = _CMP.get(type(op))
                if fn is None:
                    raise Unsupported("comparison")
                if isinstance(left, DT) and isinstance(right, int) and not isinstance(right, bool):
                    ok = fn(left.code, right)
                elif isinstance(right, DT) and isinstance(left, int) and not isinstance(left, bool):
                    ok = fn(left, right.code)
                else:
                    try:
                        ok = fn(left, right)
                    except TypeError:
                        raise EvalRaise("TypeError")
                if not ok:
                    return False
                left = right
            return True
        if isinstance(e, ast.BinOp):
            fn = _BIN.get(type(e.op))
            if fn is None:
                raise Unsupported("binary op")
            l, r = self.eval(e.left, env, fi, depth), self.eval(e.right, env, fi, depth)
            if isinstance(r, int) and isinstance(e.op, (ast.LShift, ast.Pow)) and not (0 <= r <= 4096):
                raise Unsupported("shift range")
            try:
                return fn(l, r)
            except TypeError:
                raise EvalRaise("TypeError")
        if isinstance(e, ast.IfExp):
            return self.eval(e.body if self.truth(self.eval(e.test, env, fi, depth)) else e.orelse, env, fi, depth)
        if isinstance(e, ast.Subscript):
            base = self.eval(e.value, env, fi, depth)
            if isinstance(e.slice, ast.Slice):
                lo = self.eval(e.slice.lower, env, fi, depth) if e.slice.lower is not None else None
                hi = self.eval(e.slice.upper, env, fi, depth) if e.slice.upper is not None else None
                stp = self.eval(e.slice.step, env, fi, depth) if e.slice.step is not None else None
                try:
                    return base[lo:hi:stp]
                except Exception:
                    raise EvalRaise("TypeError")
            k = self.eval(e.slice, env, fi, depth)
            try:
                return base[k]
            except Exception:
                raise EvalRaise("KeyError")
        if isinstance(e, ast.Call):
            return self.eval_call(e, env, fi, depth)
        if isinstance(e, ast.JoinedStr):
            parts = []
            for v in e.values:
                if isinstance(v, ast.Constant):
                    parts.append(str(v.value))
                elif isinstance(v, ast.FormattedValue) and v.format_spec is None:
                    val = self.eval(v.value, env, fi, depth)
                    parts.append(_repr(val) if v.conversion == 114 else _str(val))
                else:
                    raise Unsupported("format spec")
            return "".join(parts)
        if isinstance(e, (ast.ListComp, ast.GeneratorExp, ast.SetComp)) and len(e.generators) == 1 and not e.generators[0].is_async:
            gen = e.generators[0]
            it = self.eval(gen.iter, env, fi, depth)
            out = []
            if isinstance(it, Opaque):
                raise Unsupported("iteration over an opaque value")
            try:
                items = list(it)
            except TypeError:
                raise EvalRaise("TypeError")
            for item in items:
                local = dict(env)
                self.assign(gen.target, item, local)
                if all(self.truth(self.eval(c, local, fi, depth)) for c in gen.ifs):
                    out.append(self.eval(e.elt, local, fi, depth))
            return frozenset(out) if isinstance(e, ast.SetComp) else out
        raise Unsupported(f"expression {type(e).__name__}")

    def eval_call(self, e: ast.Call, env: Dict[str, Any], fi: FuncInfo, depth: int) -> Any:
        cn = call_name(e) or ""
        if cn == "isinstance" and len(e.args) == 2:
            o = self.eval(e.args[0], env, fi, depth)
            types = e.args[1].elts if isinstance(e.args[1], ast.Tuple) else [e.args[1]]
            for t in types:
                tn = (dotted(t) or "").split(".")[-1]
                if tn in ("str", "int", "float", "bool", "tuple", "list", "dict"):
                    if isinstance(o, {"str": str, "int": int, "float": float, "bool": bool, "tuple": tuple, "list": list, "dict": dict}[tn]) and not (tn == "int" and isinstance(o, bool)):
                        return True
                elif tn in ("Sequence", "Iterable", "Collection") and isinstance(o, (list, tuple)):
                    return True
                elif tn in ("bytes", "bytearray") :
                    continue
                elif tn and isinstance(o, Obj) and o.kind == tn:
                    return True
                elif not tn:
                    raise Unsupported("isinstance type expression")
            return False
        args = []
        for a in e.args:
            if isinstance(a, ast.Starred):
                sv = self.eval(a.value, env, fi, depth)
                if not isinstance(sv, (list, tuple)):
                    raise Unsupported("star argument is not a sequence")
                args.extend(sv)
            else:
                args.append(self.eval(a, env, fi, depth))
        kwargs = {}
        for k in e.keywords:
            if k.arg is None:
                kv = self.eval(k.value, env, fi, depth)
                if not isinstance(kv, dict):
                    raise Unsupported("** argument is not a mapping")
                kwargs.update(kv)
            else:
                kwargs[k.arg] = self.eval(k.value, env, fi, depth)
        last = cn.split(".")[-1]
        if cn in self.stubs:
            return self.stubs[cn](*args, **kwargs)
        if self.call_hook is not None:
            hv = self.call_hook(cn, args, kwargs)
            if hv is not NotImplemented:
                return hv
        if isinstance(e.func, ast.Name) and e.func.id in env and callable(env[e.func.id]):
            return env[e.func.id](*args, **kwargs)
        if isinstance(e.func, ast.Call):
            fv = self.eval(e.func, env, fi, depth)
            if callable(fv):
                return fv(*args, **kwargs)
            raise EvalRaise("TypeError")
        if cn == "dict" and len(args) <= 1:
            base = dict(args[0]) if args else {}
            base.update(kwargs)
            return base
        if cn in ("bool",) and len(args) == 1:
            return self.truth(args[0])
        if cn == "repr" and len(args) == 1:
            return _repr(args[0])
        if cn == "str" and len(args) == 1:
            return _str(args[0])
        if cn == "hasattr" and len(args) == 2 and isinstance(args[1], str):
            if isinstance(args[0], Obj):
                return args[1] in args[0].attrs
            if args[0] is None or isinstance(args[0], (int, str, float, tuple, list)):
                return hasattr(args[0], args[1])
            raise Unsupported("hasattr on a non-abstract object")
        if cn == "getattr" and len(args) in (2, 3) and isinstance(args[1], str):
            o = args[0]
            if isinstance(o, Obj):
                if args[1] in o.attrs:
                    return o.attrs[args[1]]
                if len(args) == 3:
                    return args[2]
                raise EvalRaise("AttributeError")
            if o is None and len(args) == 3:
                return args[2]
            if isinstance(o, Opaque):
                return Opaque(f"{o.name}.{args[1]}")
            raise Unsupported("getattr on a non-abstract object")
        if cn == "int" and len(args) == 1:
            if isinstance(args[0], DT):
                return args[0].code
            if isinstance(args[0], Opaque):
                raise Unsupported("int() of an opaque value")
            try:
                return int(args[0])
            except (TypeError, ValueError):
                raise EvalRaise("TypeError")
        if cn == "set" and not args:
            return _MutSet()
        if cn == "next" and args and isinstance(args[0], (list, tuple)):
            if args[0]:
                return args[0][0]
            if len(args) > 1:
                return args[1]
            raise EvalRaise("StopIteration")
        if cn in ("max", "min", "abs", "len", "tuple", "list", "sorted", "range", "sum", "any", "all", "set", "zip", "enumerate", "reversed"):
            try:
                r = {"max": max, "min": min, "abs": abs, "len": len, "tuple": tuple, "list": list, "sorted": sorted, "range": range, "sum": sum,
                     "any": any, "all": all, "set": frozenset, "zip": zip, "enumerate": enumerate, "reversed": reversed}[cn](*args)
            except (TypeError, ValueError, IndexError):
                raise EvalRaise("TypeError")
            return list(r) if cn in ("range", "zip", "enumerate", "reversed") else r
        if last == "DataType" and len(args) == 1:
            v = args[0]
            if isinstance(v, DT):
                return v
            if isinstance(v, int) and v in self.by_code:
                return self.by_code[v]
            raise EvalRaise("ValueError")
        if isinstance(e.func, ast.Attribute):
            # method on an abstract value
            try:
                recv = self.eval(e.func.value, env, fi, depth)
            except Unsupported:
                recv = Unsupported
            if recv is not Unsupported and not isinstance(recv, Opaque):
                m = e.func.attr
                if isinstance(recv, Obj):
                    f_ = recv.attrs.get(m)
                    if callable(f_):
                        return f_(*args, **kwargs)
                    raise EvalRaise("AttributeError" if f_ is None else "TypeError")
                if isinstance(recv, DT):
                    if m == "is_integer":
                        return recv.integer
                    if m == "is_signed":
                        return recv.signed
                    if m == "is_floating_point":
                        return recv.floating
                    if m == "numpy":
                        if recv.np_itemsize is None:
                            raise EvalRaise("TypeError")
                        return Obj("numpy.dtype", name=recv.name.lower(), itemsize=recv.np_itemsize)
                    raise Unsupported(f"DataType method {m}")
                if isinstance(recv, list) and m in ("append", "extend", "insert", "pop", "index", "count"):
                    try:
                        return getattr(recv, m)(*args)
                    except Exception:
                        raise EvalRaise("ValueError")
                if isinstance(recv, _MutSet) and m in ("add", "discard", "update", "remove"):
                    try:
                        return getattr(recv, m)(*args)
                    except Exception:
                        raise EvalRaise("KeyError")
                if isinstance(recv, dict) and m == "get":
                    return recv.get(args[0], args[1] if len(args) > 1 else None)
                if isinstance(recv, dict) and m in ("pop", "items", "keys", "values", "setdefault", "update", "copy"):
                    try:
                        r_ = getattr(recv, m)(*args, **kwargs)
                    except KeyError:
                        raise EvalRaise("KeyError")
                    return list(r_) if m in ("items", "keys", "values") else r_
                if isinstance(recv, str) and m in ("startswith", "endswith", "isdigit", "isalpha", "isalnum", "lower", "upper", "strip", "lstrip", "rstrip",
                                                   "removeprefix", "removesuffix", "partition", "rpartition", "split", "rsplit", "find", "count", "isidentifier"):
                    try:
                        return getattr(recv, m)(*args, **kwargs)
                    except Exception:
                        raise EvalRaise("TypeError")
                raise Unsupported(f"method {m}")
        if cn in ("np.dtype", "numpy.dtype") and len(args) == 1 and isinstance(args[0], Obj) and args[0].kind == "numpy.dtype":
            return args[0]
        g = self.idx.resolve_func(fi.module, cn, cls=fi.cls, scope=fi) if cn else None
        if g is not None:
            return self.call(g, args, kwargs, depth + 1)
        raise Unsupported(f"call {cn or '?'}")


def library_dtypes() -> Dict[str, DT]:
    """Element-type facts from the installed onnx_ir (third-party reference, not jax2onnx)."""
    import onnx_ir as ir

    out: Dict[str, DT] = {}
    for d in ir.DataType:
        integer = bool(d.is_integer())
        try:
            bits: Optional[int] = int(d.bitwidth)
        except Exception:
            bits = None
        try:
            import numpy as _np
            npsz: Optional[int] = int(_np.dtype(d.numpy()).itemsize)
        except Exception:
            npsz = None
        out[d.name] = DT(d.name, int(d), integer, bool(d.is_signed()) if integer else False, bits, bool(d.is_floating_point()), npsz)
    return out
