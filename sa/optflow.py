"""Ownership / observation analysis for graph-rewrite passes (ir_optimizations.py).

Vocabulary
  node variable      a local holding an ir.Node (loop variable over nodes / a node collection,
                     result of _producer_node, element of _consumer_nodes, …)
  owners(value expr) node variables whose *output* the value is (via _node_output(N), N.outputs[k],
                     _node_outputs(N)[k], locals assigned from those)
  in-owners(expr)    node variables whose *input* the value is (via _first_input(N), _node_inputs(N)[k])
  group(N)           N plus every collection N is an element of (loop variable over C, C.append(N),
                     C.add(N)) plus aliases of those collections (list(C), reversed(C), set(C))
  observation        a call to an observation predicate (graph-output / nested-graph capture test,
                     directly or through a module helper that wraps one), or a membership test against a
                     collection derived from graph.outputs
"""
from __future__ import annotations

import ast
from dataclasses import dataclass, field
from typing import Dict, Iterable, List, Optional, Set, Tuple

from .cfg import aborts, cfg_of
from .flow import DefUse, defuse, names_in
from .guards import Cond, path_conditions, split_atoms, src
from .index import FuncInfo, Index, Module, call_name, dotted, enclosing_stmt, parents, walk_no_nested

BASE_OBS = {"_value_is_graph_output", "_nested_graph_references_value"}
OBS_METHODS = {"is_graph_output"}
UNIVERSAL = {"nodes", "live_nodes", "remaining_nodes", "graph", "all_nodes"}
OUT_FUNCS = {"_node_output", "_node_outputs"}
IN_FUNCS = {"_first_input", "_node_inputs"}
MUT_RAUW = "replace_all_uses_with"


def _last(cn: Optional[str]) -> str:
    return (cn or "").split(".")[-1]


@dataclass
class ObsPredicate:
    name: str
    value_params: Set[int] = field(default_factory=set)   # positional indexes that receive a value
    nodes_params: Set[int] = field(default_factory=set)   # positional indexes that receive nodes whose outputs are tested
    kinds: Set[str] = field(default_factory=set)          # 'output' (graph outputs) / 'nested' (captured by a nested graph)


def observation_predicates(m: Module) -> Dict[str, ObsPredicate]:
    """Base predicates plus module functions that wrap one (two rounds)."""
    preds: Dict[str, ObsPredicate] = {
        "_value_is_graph_output": ObsPredicate("_value_is_graph_output", {1}, set(), {"output"}),
        "_nested_graph_references_value": ObsPredicate("_nested_graph_references_value", {1}, set(), {"nested"}),
    }
    for _ in range(3):
        changed = False
        for fi in m.funcs.values():
            if fi.parent_func is not None or fi.cls is not None or fi.name in preds:
                continue
            a = fi.node.args  # type: ignore[attr-defined]
            params = [x.arg for x in a.posonlyargs + a.args]
            du = defuse(fi.node)
            vp: Set[int] = set()
            np_: Set[int] = set()
            kinds: Set[str] = set()
            rets = [n for n in walk_no_nested(fi.node) if isinstance(n, ast.Return) and n.value is not None]
            if not rets:
                continue
            for c in walk_no_nested(fi.node):
                if not isinstance(c, ast.Call):
                    continue
                nm = _last(call_name(c))
                val_args: List[ast.AST] = []
                node_args: List[ast.AST] = []
                ck: Set[str] = set()
                if nm in preds:
                    p = preds[nm]
                    val_args = [c.args[i] for i in p.value_params if i < len(c.args)]
                    node_args = [c.args[i] for i in p.nodes_params if i < len(c.args)]
                    ck = set(p.kinds)
                elif isinstance(c.func, ast.Attribute) and c.func.attr in OBS_METHODS:
                    val_args = [c.func.value]
                    ck = {"output"}
                else:
                    continue
                # the call must influence the result: inside a return expr or an if that returns a constant
                st = enclosing_stmt(c)
                influences = isinstance(st, ast.Return) or (isinstance(st, ast.If) and any(isinstance(x, ast.Return) for x in ast.walk(st)))
                if not influences:
                    continue
                kinds |= ck
                for va in val_args:
                    cl = du.closure(names_in(va))
                    # through _node_outputs(candidate) of a loop variable over a parameter -> nodes param
                    via_out = False
                    for nme in cl:
                        for v in du.values(nme):
                            if any(isinstance(x, ast.Call) and _last(call_name(x)) in OUT_FUNCS for x in ast.walk(v)):
                                via_out = True
                    for i, pn in enumerate(params):
                        if pn in cl:
                            if pn in ("graph", "nodes", "live_nodes"):
                                continue
                            (np_ if via_out else vp).add(i)
                for na in node_args:
                    cl = du.closure(names_in(na))
                    for i, pn in enumerate(params):
                        if pn in cl and pn not in ("graph", "nodes"):
                            np_.add(i)
            if vp or np_:
                preds[fi.name] = ObsPredicate(fi.name, vp, np_, kinds)
                changed = True
        if not changed:
            break
    return preds


@dataclass
class Observation:
    call: ast.AST                   # the observation expression (Call or Compare)
    groups: Set[str]                # names of node variables / collections whose outputs are tested
    attributed: bool                # False if the analysis could not tell what is being tested
    kinds: Set[str] = field(default_factory=set)   # which observers the test covers: 'output' / 'nested'


class PassFlow:
    """Per-function facts for one rewrite pass."""

    def __init__(self, idx: Index, m: Module, fi: FuncInfo, preds: Dict[str, ObsPredicate]):
        self.idx = idx
        self.m = m
        self.fi = fi
        self.preds = preds
        self.du: DefUse = defuse(fi.node)
        self._contains: Dict[str, Set[str]] = {}   # element name -> collections
        self._alias: Dict[str, Set[str]] = {}
        self._build_membership()
        self.observations: List[Observation] = self._find_observations()

    # ------------------------------------------------------------------ membership
    def _build_membership(self) -> None:
        def coll_names(e: ast.AST) -> Set[str]:
            return {n for n in names_in(e) if n not in UNIVERSAL and n not in ("list", "set", "reversed", "sorted", "tuple", "cast", "NodeSeq", "enumerate", "zip")}
        for name, ds in self.du.defs.items():
            for d in ds:
                if d.kind in ("for", "comp") and d.value is not None:
                    for c in coll_names(d.value):
                        self._contains.setdefault(name, set()).add(c)
                elif d.kind in ("assign", "unpack") and d.value is not None:
                    v = d.value
                    # alias: C2 = list(reversed(C)) / set(C) / list(C) / C[:]
                    if isinstance(v, ast.Call) and _last(call_name(v)) in ("list", "set", "reversed", "sorted", "tuple", "frozenset") and v.args:
                        for c in coll_names(v.args[0]):
                            self._alias.setdefault(name, set()).add(c)
                            self._alias.setdefault(c, set()).add(name)
                    # element: N = C[k] / C.pop()
                    if isinstance(v, ast.Subscript) and isinstance(v.value, ast.Name) and v.value.id not in UNIVERSAL:
                        self._contains.setdefault(name, set()).add(v.value.id)
                    if isinstance(v, ast.Call) and isinstance(v.func, ast.Attribute) and v.func.attr == "pop" and isinstance(v.func.value, ast.Name):
                        self._contains.setdefault(name, set()).add(v.func.value.id)
                    # list literal / set literal containing node names: C = [T1] + allowed  -> elements
                    if isinstance(v, (ast.List, ast.Set, ast.Tuple)):
                        for e in v.elts:
                            if isinstance(e, ast.Name):
                                self._contains.setdefault(e.id, set()).add(name)
        for n in walk_no_nested(self.fi.node):
            if isinstance(n, ast.Call) and isinstance(n.func, ast.Attribute) and n.func.attr in ("append", "add", "extend", "update") and isinstance(n.func.value, ast.Name) and n.args:
                c = n.func.value.id
                if c in UNIVERSAL:
                    continue
                for e in names_in(n.args[0]):
                    if e not in UNIVERSAL:
                        if n.func.attr in ("append", "add"):
                            self._contains.setdefault(e, set()).add(c)
                        else:
                            self._alias.setdefault(c, set()).add(e)
                            self._alias.setdefault(e, set()).add(c)

    def reaching_defs(self, name: str, at: Optional[ast.AST]):
        """Definitions of `name` that reach `at` (approximation: the latest definition that precedes the
        site in a block enclosing it; a loop variable bound by an enclosing loop wins; else all)."""
        ds = self.du.defs.get(name, [])
        if at is None or not ds:
            return ds
        anc = [at] + list(parents(at))
        anc_ids = {id(a) for a in anc}
        best = None
        for d in ds:
            st = d.stmt
            if d.kind in ("for", "comp", "with"):
                if id(st) in anc_ids or (d.kind == "comp" and id(getattr(st, "parent", None)) in anc_ids):
                    # innermost binder wins
                    depth = next(i for i, a in enumerate(anc) if a is st or a is getattr(st, "parent", None))
                    cand = (2, -depth, d)
                else:
                    continue
            elif d.kind == "param":
                cand = (0, 0, d)
            else:
                if getattr(st, "lineno", 0) >= getattr(at, "lineno", 0) and id(st) not in anc_ids:
                    continue
                if id(getattr(st, "parent", None)) not in anc_ids:
                    continue
                cand = (1, st.lineno, d)
            if best is None or cand[:2] > best[:2]:
                best = cand
        if best is None:
            return ds
        if best[0] == 1:
            # a later straight-line assignment shadows an enclosing loop binder only if it is inside that loop
            return [best[2]]
        return [best[2]]

    def group(self, name: str, at: Optional[ast.AST] = None) -> Set[str]:
        out: Set[str] = set()
        todo = [(name, at)]
        while todo:
            n, site = todo.pop()
            if n in out or n in UNIVERSAL:
                continue
            out.add(n)
            rd = self.reaching_defs(n, site)
            binder = [d for d in rd if d.kind in ("for", "comp")] if site is not None else []
            if binder:
                for d in binder:
                    if d.value is not None:
                        for c in names_in(d.value):
                            if c not in UNIVERSAL and c not in ("list", "set", "reversed", "sorted", "tuple", "cast", "NodeSeq", "enumerate", "zip"):
                                todo.append((c, None))
            else:
                for c in self._contains.get(n, ()):
                    todo.append((c, None))
            for c in self._alias.get(n, ()):
                todo.append((c, None))
            # true aliasing only: `m = cur`
            for d in rd:
                if d.kind == "assign" and isinstance(d.value, ast.Name):
                    todo.append((d.value.id, d.stmt))
        return out

    # ------------------------------------------------------------------ value ownership
    def owners(self, e: ast.AST, _seen: Optional[Set[str]] = None, kind: str = "out", at: Optional[ast.AST] = None) -> Set[str]:
        """Node variables whose output (kind='out') / input (kind='in') the value expression is."""
        funcs = OUT_FUNCS if kind == "out" else IN_FUNCS
        attr = "outputs" if kind == "out" else "inputs"
        _seen = _seen or set()
        if at is None:
            at = e if hasattr(e, "lineno") else None
        out: Set[str] = set()
        for n in ast.walk(e):
            if isinstance(n, ast.Call) and _last(call_name(n)) in funcs and n.args and isinstance(n.args[0], ast.Name):
                out.add(n.args[0].id)
            elif isinstance(n, ast.Attribute) and n.attr == attr and isinstance(n.value, ast.Name):
                out.add(n.value.id)
            elif isinstance(n, ast.Name) and n.id not in _seen and n.id not in UNIVERSAL:
                _seen.add(n.id)
                for d in self.reaching_defs(n.id, at):
                    if d.value is None:
                        continue
                    # `_v_name(out)` etc. keep ownership; results of _producer_node / _consumer_nodes do not
                    if isinstance(d.value, ast.Call) and _last(call_name(d.value)) in ("_producer_node", "_consumer_nodes"):
                        continue
                    out |= self.owners(d.value, _seen, kind, at=d.stmt)
        return out

    def owner_groups(self, e: ast.AST, kind: str = "out") -> Set[str]:
        g: Set[str] = set()
        for o in self.owners(e, kind=kind):
            g |= self.group(o, at=e if hasattr(e, "lineno") else None)
        return g

    # ------------------------------------------------------------------ observations
    def _graph_output_collections(self) -> Set[str]:
        out = set()
        for name, ds in self.du.defs.items():
            for d in ds:
                if d.value is not None and any(isinstance(x, ast.Attribute) and x.attr == "outputs" and isinstance(x.value, ast.Name) and x.value.id == "graph" for x in ast.walk(d.value)):
                    out.add(name)
        return out

    def _find_observations(self) -> List[Observation]:
        res: List[Observation] = []
        gout = self._graph_output_collections()
        for n in walk_no_nested(self.fi.node):
            if isinstance(n, ast.Call):
                nm = _last(call_name(n))
                groups: Set[str] = set()
                matched = False
                okinds: Set[str] = set()
                if nm in self.preds:
                    matched = True
                    p = self.preds[nm]
                    okinds = set(p.kinds)
                    for i in p.value_params:
                        if i < len(n.args):
                            groups |= self.owner_groups(n.args[i])
                    for i in p.nodes_params:
                        if i < len(n.args):
                            for x in names_in(n.args[i]):
                                groups |= self.group(x, at=n)
                elif isinstance(n.func, ast.Attribute) and n.func.attr in OBS_METHODS:
                    matched = True
                    okinds = {"output"}
                    groups |= self.owner_groups(n.func.value)
                elif isinstance(n.func, ast.Attribute) and n.func.attr in ("uses", "consumers") and not n.args:
                    # onnx_ir usage tracking also sees consumers that sit in nested graphs
                    matched = True
                    okinds = {"nested"}
                    groups |= self.owner_groups(n.func.value)
                if matched:
                    groups -= {"graph"}
                    res.append(Observation(n, groups, bool(groups), okinds))
            elif isinstance(n, ast.Compare) and len(n.ops) == 1 and isinstance(n.ops[0], (ast.In, ast.NotIn)) and isinstance(n.comparators[0], ast.Name) and n.comparators[0].id in gout:
                groups = self.owner_groups(n.left)
                res.append(Observation(n, groups, bool(groups), {"output"}))
        return res

    # ------------------------------------------------------------------ protection
    def protecting_observations(self, mut: ast.AST) -> List[Observation]:
        """Observations that are known *negative* when control reaches `mut`:
        (i) abort guard / else branch, (ii) flag set in the guard body and tested on the path,
        (iii) flag assigned from the observation and known False on the path."""
        conds = path_conditions(mut)
        out: List[Observation] = []
        for ob in self.observations:
            if self._negative_on_path(ob, conds):
                out.append(ob)
        return out

    def _negative_on_path(self, ob: Observation, conds: List[Cond]) -> bool:
        # (i) direct
        for e, want in conds:
            if any(x is ob.call for x in ast.walk(e)):
                if self._polarity(e, ob.call) != want:   # observation evaluates to False on the path
                    return True
        # (iii) flag = <expr containing observation>;  path knows flag is False
        st = enclosing_stmt(ob.call)
        if isinstance(st, (ast.Assign, ast.AnnAssign)):
            tgt = st.targets[0] if isinstance(st, ast.Assign) else st.target
            if isinstance(tgt, ast.Name) and st.value is not None and self._polarity(st.value, ob.call):
                for e, want in conds:
                    if isinstance(e, ast.Name) and e.id == tgt.id and want is False:
                        return True
        # (ii) `if <obs>: flag = CONST [; break]`  and the path knows flag == not CONST
        for p in parents(ob.call):
            if isinstance(p, (ast.FunctionDef, ast.AsyncFunctionDef)):
                break
            if isinstance(p, ast.If) and any(x is ob.call for x in ast.walk(p.test)):
                pol = self._polarity(p.test, ob.call)
                body = p.body if pol else p.orelse
                for s in body:
                    if isinstance(s, ast.Assign) and len(s.targets) == 1 and isinstance(s.targets[0], ast.Name) and isinstance(s.value, ast.Constant) and isinstance(s.value.value, bool):
                        flag, val = s.targets[0].id, s.value.value
                        for e, want in conds:
                            if isinstance(e, ast.Name) and e.id == flag and want is (not val):
                                return True
                # a guard that aborts an enclosing *collection* loop with `return None` etc. is handled by (i)
        return False

    @staticmethod
    def _polarity(e: ast.AST, target: ast.AST) -> bool:
        """True if `target` occurs positively in boolean expression e (an odd number of `not` flips it)."""
        pol = True
        cur: Optional[ast.AST] = target
        while cur is not None and cur is not e:
            par = getattr(cur, "parent", None)
            if isinstance(par, ast.UnaryOp) and isinstance(par.op, ast.Not):
                pol = not pol
            if isinstance(par, ast.Compare) and isinstance(cur, ast.Compare) is False:
                pass
            cur = par
        if isinstance(target, ast.Compare) and isinstance(target.ops[0], ast.NotIn):
            pol = not pol
        return pol

    # ------------------------------------------------------------------ mutations
    def mutations(self) -> List[Tuple[str, ast.Call]]:
        out: List[Tuple[str, ast.Call]] = []
        for n in walk_no_nested(self.fi.node):
            if not isinstance(n, ast.Call):
                continue
            nm = _last(call_name(n))
            if nm == MUT_RAUW:
                out.append(("rauw", n))
            elif nm == "replace_input_with" and isinstance(n.func, ast.Attribute):
                out.append(("reinput", n))
            elif nm == "_set_node_inputs":
                out.append(("setinputs", n))
            elif nm == "remove" and isinstance(n.func, ast.Attribute) and isinstance(n.func.value, ast.Name) and n.func.value.id == "graph":
                out.append(("remove", n))
        return out

    def is_fresh_value(self, e: ast.AST) -> bool:
        """Value constructed in this pass (ir.Value(...), a helper returning one) or None."""
        if isinstance(e, ast.Constant) and e.value is None:
            return True
        cl = self.du.closure(names_in(e))
        for nm in cl:
            for v in self.du.values(nm):
                for c in ast.walk(v):
                    if isinstance(c, ast.Call):
                        cn = call_name(c) or ""
                        if cn in ("ir.Value", "ir.val"):
                            return True
                        g = self.idx.resolve_func(self.m, cn, scope=self.fi) if cn else None
                        if g is not None and any(isinstance(r, ast.Return) and isinstance(r.value, ast.Call) and (call_name(r.value) or "") in ("ir.Value", "ir.val") for r in ast.walk(g.node)):
                            return True
        return False


def registered_passes(idx: Index, m: Module) -> List[Tuple[str, FuncInfo, bool, str]]:
    """(registry name, function, runs_on_function_bodies, kind) from the _OPTIMIZER_PASSES tuple."""
    reg = None
    for st in m.tree.body:
        tgt = st.targets[0] if isinstance(st, ast.Assign) else getattr(st, "target", None)
        if isinstance(tgt, ast.Name) and tgt.id == "_OPTIMIZER_PASSES":
            reg = st.value  # type: ignore[union-attr]
    if reg is None or not isinstance(reg, (ast.Tuple, ast.List)):
        from .index import AnalysisError
        raise AnalysisError("_OPTIMIZER_PASSES registry not found in ir_optimizations.py")
    out = []
    for e in reg.elts:
        if not isinstance(e, ast.Call):
            continue
        kind = _last(call_name(e))
        name = e.args[0].value if e.args and isinstance(e.args[0], ast.Constant) else "?"
        fn = dotted(e.args[1]) if len(e.args) > 1 else None
        fb = True
        for k in e.keywords:
            if k.arg == "function_bodies" and isinstance(k.value, ast.Constant):
                fb = bool(k.value.value)
            if k.arg in ("runner",) and fn is None:
                fn = dotted(k.value)
        if kind == "_model_pass":
            fb = False
        fi = m.funcs.get(fn or "")
        if fi is not None:
            out.append((name, fi, fb, "model" if kind == "_model_pass" else "graph"))
    return out
