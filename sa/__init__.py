"""Static-analysis checkers for jax2onnx properties C01-C19 (see /verif/DESIGN.md).

Nothing in this package imports or executes jax2onnx; every rule reads /repo's
current source through ``ast`` on every run.
"""
