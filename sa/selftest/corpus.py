"""Mutation corpus (must fire) and benign-refactor corpus (must stay silent).

Every case edits a scratch copy of /repo/jax2onnx by exact text replacement; if the text is no
longer present the case is reported STALE (the corpus, not the checker, needs updating).
"""

UIF = "jax2onnx/user_interface.py"
OPT = "jax2onnx/converter/ir_optimizations.py"

CASES = []


def mutant(id, prop, file, find, replace, expect="", count=1):
    CASES.append({"id": id, "prop": prop, "kind": "mutant", "expect": expect, "edits": [{"file": file, "find": find, "replace": replace, "count": count}]})


def benign(id, prop, file, find, replace, count=1):
    CASES.append({"id": id, "prop": prop, "kind": "benign", "edits": [{"file": file, "find": find, "replace": replace, "count": count}]})


def multi(id, prop, kind, edits, expect=""):
    """edits: list of (file, find, replace)"""
    CASES.append({"id": id, "prop": prop, "kind": kind, "expect": expect, "edits": [{"file": f, "find": a, "replace": b} for f, a, b in edits]})


# ----------------------------------------------------------------------------- C11
mutant("c11-subgraph-opset-from-missing-attribute", "C11", "jax2onnx/plugins/jax/lax/_control_flow_utils.py", "        \"opset\": getattr(parent_ctx.builder, \"opset\", 21),", "        \"opset\": getattr(parent_ctx, \"opset_version\", 23),", expect="R-C11f")
mutant("c11-silu-guard-dropped", "C11", "jax2onnx/plugins/jax/nn/silu.py", "if opset >= 24:", "if opset >= 22:", expect="Swish")
mutant("c11-swish-pass-guard-weakened", "C11", OPT, "if _graph_default_opset(graph) < 24:\n        return", "if _graph_default_opset(graph) < 22:\n        return", expect="Swish")
mutant("c11-rmsnorm-guard-removed", "C11", "jax2onnx/plugins/flax/nnx/rms_norm.py", "            and opset >= 23\n", "", expect="RMSNormalization")
mutant("c11-attention-flag-weakened", "C11", "jax2onnx/plugins/equinox/eqx/nn/multihead_attention.py",
       "use_native_attention = _builder_opset(builder) >= 23 and hasattr(", "use_native_attention = _builder_opset(builder) >= 21 and hasattr(", expect="Attention")
mutant("c11-legacy-scatter-predicate", "C11", "jax2onnx/plugins/jax/lax/scatter_utils.py", "    return opset <= 10\n", "    return opset <= 30\n", expect="Scatter")
mutant("c11-new-unguarded-op", "C11", "jax2onnx/plugins/jax/lax/tanh.py", "ctx.builder.Tanh(", "ctx.builder.Swish(", expect="Swish")
mutant("c11-bad-attribute", "C11", "jax2onnx/plugins/jax/nn/silu.py", "            sigmoid_val = ctx.builder.Sigmoid(\n                x_val,", "            sigmoid_val = ctx.builder.Sigmoid(\n                x_val,\n                alpha=1.0,", expect="alpha")
mutant("c11-helper-dispatched-op", "C11", "jax2onnx/plugins/jax/lax/div.py", '_binary("Mul"', '_binary("Swish"', expect="Swish")
benign("c11-benign-flip-comparison", "C11", "jax2onnx/plugins/jax/nn/silu.py", "if opset >= 24:", "if 24 <= opset:")
benign("c11-benign-not-lt", "C11", "jax2onnx/plugins/jax/nn/silu.py", "if opset >= 24:", "if not (opset < 24):")
multi("c11-benign-rename-local", "C11", "benign", [("jax2onnx/plugins/jax/nn/silu.py", "        opset = int(getattr(ctx.builder", "        tgt_version = int(getattr(ctx.builder"),
                                                   ("jax2onnx/plugins/jax/nn/silu.py", "if opset >= 24:", "if tgt_version >= 24:")])

# ----------------------------------------------------------------------------- C17
mutant("c17-float-ge-to-le", "C17", OPT, "        target_precision >= source_precision\n        and target_min_exponent", "        target_precision <= source_precision\n        and target_min_exponent", expect="FLOAT")
mutant("c17-int-float-precision-slack", "C17", OPT, "        target_precision >= required_precision\n        and target_max_exponent", "        target_precision >= required_precision - 8\n        and target_max_exponent", expect="INT16->FLOAT16")
benign("c17-benign-int-float-exponent-clause-redundant", "C17", OPT, "        target_precision >= required_precision\n        and target_max_exponent >= source_bits - 1\n", "        target_precision >= required_precision\n")
mutant("c17-unsigned-to-signed-ge", "C17", OPT, "    if target_signed:\n        return target_bits > source_bits", "    if target_signed:\n        return target_bits >= source_bits", expect="UINT")
mutant("c17-table-bf16-precision", "C17", OPT, "ir.DataType.BFLOAT16: (8, -133, 127)", "ir.DataType.BFLOAT16: (11, -133, 127)", expect="BFLOAT16")
benign("c17-benign-table-deviation-without-decision-change", "C17", OPT, "ir.DataType.FLOAT16: (11, -24, 15)", "ir.DataType.FLOAT16: (11, -24, 31)")
mutant("c17-float-source-to-int-accepted", "C17", OPT,
       "    source_float = _standard_float_format(source)\n    if source_float is not None:\n        target_float = intermediate_float or intermediate_complex\n        return target_float is not None and",
       "    source_float = _standard_float_format(source)\n    if source_float is not None:\n        target_float = intermediate_float or intermediate_complex\n        return intermediate_integer is not None or target_float is not None and",
       expect="decision::FLOAT")
mutant("c17-swapped-decision-args", "C17", OPT, "_cast_roundtrip_is_value_preserving(\n                                        src_dtype, target_code\n                                    )",
       "_cast_roundtrip_is_value_preserving(\n                                        target_code, src_dtype\n                                    )", expect="R-C17d")
mutant("c17-next-target-check-dropped", "C17", OPT, "                                next_target is not None\n                                and next_target == src_dtype\n                                and (", "                                next_target is not None\n                                and (", expect="R-C17d")
mutant("c17-decision-dropped", "C17", OPT, "                                    _cast_roundtrip_is_value_preserving(\n                                        src_dtype, target_code\n                                    )\n                                    or _cast_roundtrip_known_values_fit(",
       "                                    src_dtype is not None\n                                    or _cast_roundtrip_known_values_fit(", expect="R-C17d")
mutant("c17-range-proof-upper-bound-dropped", "C17", OPT, "    return value_min >= target_min and value_max <= target_max", "    return value_min >= target_min", expect="R-C17c")
mutant("c17-complex-to-float-accepted", "C17", OPT, "    if source_complex is not None and intermediate_complex is not None:\n        return _float_domain_fits_float(source_complex, intermediate_complex)",
       "    if source_complex is not None and (intermediate_complex or intermediate_float) is not None:\n        return _float_domain_fits_float(source_complex, intermediate_complex or intermediate_float)", expect="COMPLEX")
mutant("c17-bool-through-any-floating-type", "C17", OPT, "            intermediate_integer is not None\n            or intermediate_float is not None\n            or intermediate_complex is not None", "            intermediate_integer is not None\n            or intermediate.is_floating_point()\n            or intermediate_complex is not None", expect="FLOAT8E8M0")
mutant("c17-table-e4m3-wrong-precision", "C17", OPT, "        ir.DataType.DOUBLE: (53, -1074, 1023),\n    }", "        ir.DataType.DOUBLE: (53, -1074, 1023),\n        ir.DataType.FLOAT8E4M3FN: (8, -9, 8),\n    }", expect="FLOAT8E4M3FN")
benign("c17-benign-table-e4m3-loose-emax-no-decision-change", "C17", OPT, "        ir.DataType.DOUBLE: (53, -1074, 1023),\n    }", "        ir.DataType.DOUBLE: (53, -1074, 1023),\n        ir.DataType.FLOAT8E4M3FN: (4, -9, 15),\n    }")
benign("c17-benign-table-e5m2-entry", "C17", OPT, "        ir.DataType.DOUBLE: (53, -1074, 1023),\n    }", "        ir.DataType.DOUBLE: (53, -1074, 1023),\n        ir.DataType.FLOAT8E5M2: (3, -16, 15),\n    }")
benign("c17-benign-reorder-conjuncts", "C17", OPT, "        target_precision >= source_precision\n        and target_min_exponent <= source_min_exponent\n",
       "        target_min_exponent <= source_min_exponent\n        and target_precision >= source_precision\n")
benign("c17-benign-flip-compare", "C17", OPT, "        return target_signed and target_bits >= source_bits", "        return target_signed and source_bits <= target_bits")
benign("c17-benign-conservative-double", "C17", OPT, "ir.DataType.DOUBLE: (53, -1074, 1023)", "ir.DataType.DOUBLE: (53, -1074, 1023 + 0)")

# ----------------------------------------------------------------------------- C13
benign("c13-benign-ownership-probe-dunder-dict", "C13", "jax2onnx/plugins/_patching.py", "            owned = orig is not _MISSING and owns_attr(tgt, s.attr)", "            owned = orig is not _MISSING and s.attr in getattr(tgt, \"__dict__\", {s.attr: None})")
mutant("c13-inherited-attr-restored-by-setattr", "C13", "jax2onnx/plugins/_patching.py", "            if orig is _MISSING or not owned:", "            if orig is _MISSING:", expect="R-C13f")
mutant("c13-function-patch-restore-ignores-ownership", "C13", "jax2onnx/plugins/plugin_system.py", "                    if st.get(\"owned\", True):\n                        setattr(tgt, attr, st[\"orig\"])\n                    else:\n                        # inherited attribute: remove the override instead of\n                        # pinning a copy of the base's attribute on the subclass\n                        delattr(tgt, attr)", "                    setattr(tgt, attr, st[\"orig\"])", expect="R-C13f")
PS = "jax2onnx/plugins/plugin_system.py"
mutant("c13-revert-fix-loop-before-try", "C13", PS,
       """    try:
        for patch_fn, targets, attr in _iter_patch_specs():
            for tgt in targets:
                key = (tgt, attr)
                st = _PATCH_STATE.get(key)
                if st is None:
                    orig = getattr(tgt, attr)
                    owned = owns_attr(tgt, attr)
                    new = patch_fn(orig)
                    setattr(tgt, attr, new)
                    _PATCH_STATE[key] = {"orig": orig, "owned": owned, "count": 1}
                else:
                    st["count"] += 1
                touched.append(key)
        yield
""",
       """    for patch_fn, targets, attr in _iter_patch_specs():
        for tgt in targets:
            key = (tgt, attr)
            st = _PATCH_STATE.get(key)
            if st is None:
                orig = getattr(tgt, attr)
                owned = owns_attr(tgt, attr)
                new = patch_fn(orig)
                setattr(tgt, attr, new)
                _PATCH_STATE[key] = {"orig": orig, "owned": owned, "count": 1}
            else:
                st["count"] += 1
            touched.append(key)
    try:
        yield
""", expect="apply_monkey_patches")
mutant("c13-x64-restore-removed", "C13", "jax2onnx/converter/conversion_api.py",
       '    finally:\n        if previous != target:\n            jax.config.update("jax_enable_x64", previous)', "    finally:\n        pass", expect="jax_enable_x64")
mutant("c13-restore-forward-order", "C13", "jax2onnx/plugins/_patching.py", "for tgt, attr, orig, owned in reversed(applied):", "for tgt, attr, orig, owned in applied:", expect="restore-order")
mutant("c13-function-build-flag-not-reset", "C13", PS, "            finally:\n                _IN_FUNCTION_BUILD.set(active)", "            finally:\n                pass", expect="_IN_FUNCTION_BUILD")
mutant("c13-module-level-library-write", "C13", "jax2onnx/plugins/jax/numpy/abs.py", "import jax.numpy as jnp\n", "import jax.numpy as jnp\n\njnp.fabs_compat = jnp.abs\n", expect="jnp.fabs_compat")
mutant("c13-binding-entered-manually", "C13", PS, "        with apply_patches(cls.binding_specs()):\n            yield", "        cm = apply_patches(cls.binding_specs())\n        cm.__enter__()\n        yield", expect="apply_patches")
mutant("c13-statement-between-mutation-and-try", "C13", "jax2onnx/plugins/flax/test_utils.py", "    jnp.shape = orig_shape\n    try:", "    jnp.shape = orig_shape\n    get_orig_impl(JnpShapePlugin._PRIM, JnpShapePlugin._FUNC_NAME)\n    try:", expect="jnp.shape")
mutant("c13-temporary-x64-finally-dropped", "C13", "jax2onnx/user_interface.py", '    finally:\n        if jax.config.jax_enable_x64 != prev:\n            jax.config.update("jax_enable_x64", prev)', "    finally:\n        pass", expect="jax_enable_x64")
mutant("c13-overwrite-jax-batcher", "C13", "jax2onnx/plugins/jax/numpy/cumsum.py", "batching.primitive_batchers[JnpCumSumPlugin._PRIM] = _cumsum_batch_rule", "batching.primitive_batchers[JnpCumSumPlugin._PRIM] = _cumsum_batch_rule\nbatching.primitive_batchers[jax.lax.cumsum_p] = _cumsum_batch_rule", expect="library registry")
benign("c13-benign-flip-compare", "C13", "jax2onnx/converter/conversion_api.py", "    if previous != target:\n        jax.config.update(\"jax_enable_x64\", target)\n    try:", "    if target != previous:\n        jax.config.update(\"jax_enable_x64\", target)\n    try:")
benign("c13-benign-rename-applied", "C13", "jax2onnx/plugins/_patching.py", "applied", "done_list", count=99)

# ----------------------------------------------------------------------------- C19
RUF = "jax2onnx/plugins/jax/numpy/_reduction_utils.py"
multi("c19-batch-rule-rebind-whitelist", "C19", "mutant", [(RUF, "        (operand,), (bdim,) = batched_args, batch_dims\n", "        (operand,), (bdim,) = batched_args, batch_dims\n        passthrough = {name: params[name] for name in (\"dtype\", \"keepdims\") if name in params}\n"), (RUF, "                axes_is_tuple=axes_is_tuple,\n                **params,", "                axes_is_tuple=axes_is_tuple,\n                **passthrough,")], expect="R-C19e")
multi("c19-benign-batch-rule-rebind-copy", "C19", "benign", [(RUF, "        (operand,), (bdim,) = batched_args, batch_dims\n", "        (operand,), (bdim,) = batched_args, batch_dims\n        forwarded = dict(params)\n"), (RUF, "                axes_is_tuple=axes_is_tuple,\n                **params,", "                axes_is_tuple=axes_is_tuple,\n                **forwarded,")])
JT = "jax2onnx/plugins/jax/numpy/transpose.py"
mutant("c19-param-renamed", "C19", JT, "def _patched(a: ArrayLike, axes: AxesArg = None) -> jax.Array:\n                arr = jnp.asarray(a)\n                axes_tuple = _normalize_axes(axes, arr.ndim)",
       "def _patched(a: ArrayLike, perm: AxesArg = None) -> jax.Array:\n                arr = jnp.asarray(a)\n                axes_tuple = _normalize_axes(perm, arr.ndim)", expect="jax.numpy.transpose::axes::keyword")
mutant("c19-param-made-keyword-only", "C19", JT, "def _patched(a: ArrayLike, axes: AxesArg = None) -> jax.Array:", "def _patched(a: ArrayLike, *, axes: AxesArg = None) -> jax.Array:", expect="jax.numpy.transpose::axes::positional#1")
mutant("c19-optional-made-required", "C19", JT, "def _patched(a: ArrayLike, axes: AxesArg = None) -> jax.Array:", "def _patched(a: ArrayLike, axes: AxesArg) -> jax.Array:", expect="jax.numpy.transpose::axes::omitted")
mutant("c19-argument-silently-dropped", "C19", JT, "                axes_tuple = _normalize_axes(axes, arr.ndim)", "                axes_tuple = _normalize_axes(None, arr.ndim)", expect="jax.numpy.transpose::axes")
mutant("c19-argument-deleted", "C19", "jax2onnx/plugins/jax/numpy/squeeze.py", "                arr = jnp.asarray(a)\n                dims = _resolve_dimensions(", "                arr = jnp.asarray(a)\n                del axis\n                axis = None\n                dims = _resolve_dimensions(", expect="jax.numpy.squeeze::axis")
mutant("c19-bind-key-not-accepted", "C19", JT, "return cls._PRIM.bind(arr, permutation=axes_tuple)", "return cls._PRIM.bind(arr, permutation=axes_tuple, conjugate=False)", expect="conjugate")
benign("c19-benign-extra-kwargs-catchall", "C19", JT, "def _patched(a: ArrayLike, axes: AxesArg = None) -> jax.Array:", "def _patched(a: ArrayLike, axes: AxesArg = None, *more: object) -> jax.Array:\n                if more:\n                    raise TypeError('too many arguments')")
benign("c19-benign-annotation-change", "C19", JT, "def _patched(a: ArrayLike, axes: AxesArg = None) -> jax.Array:", "def _patched(a: object, axes: object = None) -> jax.Array:")

# ----------------------------------------------------------------------------- C02
mutant("c02-elementwise-predicate-ignores-domain", "C02", OPT, "    if (getattr(node, \"domain\", \"\") or \"\") != \"\":\n        return False\n    return (\n        node.op_type in ELEMENTWISE_UNARY_OPS", "    return (\n        node.op_type in ELEMENTWISE_UNARY_OPS", expect="R-C02l")
mutant("c02-softmax-listed-layout-invariant", "C02", OPT, "    \"Abs\",\n    \"Neg\",\n    \"Exp\",", "    \"Abs\",\n    \"Softmax\",\n    \"Neg\",\n    \"Exp\",", expect="R-C02k")
mutant("c02-same-value-by-producer", "C02", OPT, "    if left is right:\n        return True\n    left_name = _v_name(left)", "    if left is right:\n        return True\n    left_producer = left.producer()\n    if left_producer is not None and left_producer is right.producer():\n        return True\n    left_name = _v_name(left)", expect="R-C02j")
benign("c02-benign-erf-listed-layout-invariant", "C02", OPT, "    \"Abs\",\n    \"Neg\",\n    \"Exp\",", "    \"Abs\",\n    \"Erf\",\n    \"Neg\",\n    \"Exp\",")
mutant("c02-reduce-observation-guard-removed", "C02", OPT, "            if _value_is_observed(graph, nodes, reducer_out_val):\n", "            if False:\n", expect="remeant::reducer")
mutant("c02-add-forest-guard-removed", "C02", OPT, "            if _any_node_output_observed(graph, nodes, add_nodes):\n", "            if False:\n", expect="remeant::add_nodes")
mutant("c02-add-chain-guard-removed", "C02", OPT, "            if _any_node_output_observed(graph, nodes, add_chain):\n                continue\n", "", expect="add_chain")
mutant("c02-forest-guard-removed", "C02", OPT, "            if _any_node_output_observed(graph, nodes, elem_nodes):\n                continue\n", "", expect="remeant::elem_nodes")
mutant("c02-forest-input-transpose-graph-output", "C02", OPT, "                if _value_is_observed(graph, live_nodes, t_out):\n                    continue\n", "", expect="removed::")
mutant("c02-chain-t1-output-guard-removed", "C02", OPT, "            if _value_is_observed(graph, nodes, t1_out) or _any_node_output_observed(\n                graph, nodes, elem_nodes\n            ):",
       "            if _any_node_output_observed(\n                graph, nodes, elem_nodes\n            ):", expect="removed::T1")
mutant("c02-chain-elem-guard-removed", "C02", OPT, "            if _value_is_observed(graph, nodes, t1_out) or _any_node_output_observed(\n                graph, nodes, elem_nodes\n            ):",
       "            if _value_is_observed(graph, nodes, t1_out):", expect="remeant::elem_nodes")
mutant("c02-case1-t1-guard-removed", "C02", OPT, "                if _value_is_observed(\n                    graph, nodes, T1_out\n                ) or _any_node_output_observed(graph, nodes, allowed_nodes):",
       "                if _any_node_output_observed(graph, nodes, allowed_nodes):", expect="::T1")
mutant("c02-case1-carriers-guard-removed", "C02", OPT, "                if _value_is_observed(\n                    graph, nodes, T1_out\n                ) or _any_node_output_observed(graph, nodes, allowed_nodes):",
       "                if _value_is_observed(\n                    graph, nodes, T1_out\n                ):", expect="remeant::allowed_nodes")
mutant("c02-reshape-guards-removed", "C02", OPT, "            if safe_chain and (\n                _value_is_observed(graph, nodes, t1_out)\n                or _any_node_output_observed(graph, nodes, allowed_fwd)\n            ):", "            if safe_chain and False:", expect="remove_redundant_reshape_pairs_ir")
mutant("c02-inline-allowed-set-walk", "C02", OPT, "                    if _is_first_input_passthrough(m):\n", "                    if m.op_type in ALLOWED_ELEMWISE:\n", expect="walk::Max")
mutant("c02-passthrough-binary-branch-removed", "C02", OPT, "    if node.op_type in ELEMENTWISE_BINARY_OPS:\n        return all(\n            iv is None or _is_scalar_const_value(iv) for iv in _node_inputs(node)[1:]\n        )\n    return True", "    return True", expect="walk::M")
mutant("c02-mul-added-to-allowed", "C02", OPT, 'ALLOWED_ELEMWISE: Set[str] = {\n    "Elu",', 'ALLOWED_ELEMWISE: Set[str] = {\n    "PRelu",\n    "Elu",', expect="walk::PRelu")
mutant("c02-shapes-compatible-wildcards", "C02", OPT,
       "    da, db = _shape_dims_seq(a.shape), _shape_dims_seq(b.shape)\n    if da is None or db is None or len(da) != len(db):\n        return False\n",
       "    ta, tb = _shape_tuple(a), _shape_tuple(b)\n    if ta is None or tb is None or len(ta) != len(tb):\n        return False\n    for xa, xb in zip(ta, tb):\n        if xa == -1 or xb == -1:\n            continue\n        if xa != xb:\n            return False\n    return True\n    da, db = _shape_dims_seq(a.shape), _shape_dims_seq(b.shape)\n",
       expect="R-C02c")
mutant("c02-dropout-constant-not-inserted", "C02", OPT, "                        false_value = _constant_false_value()\n                        graph.insert_before(\n                            nodes[0],\n                            ir.Node(", "                        false_value = _constant_false_value()\n                        _unused = (\n                            nodes[0],\n                            dict(", expect="R-C02d")
mutant("c02-reduce-axes-initializer-in-function-body", "C02", OPT, "                    graph.insert_before(\n                        reducer,\n                        ir.Node(", "                    graph.initializers.add(new_axes_val)\n                    _unused = (\n                        reducer,\n                        dict(", expect="R-C02e")
mutant("c02-case2-inverse-perm-check-dropped", "C02", OPT, "                    if perm2 is None or not _is_inverse_perm(perm1, perm2):\n                        continue\n                    # Found a direct T2", "                    if perm2 is None:\n                        continue\n                    # Found a direct T2", expect="R-C02f")
mutant("c02-inverse-perm-same-operand", "C02", OPT, "                if perm1 is None or perm2 is None or not _is_inverse_perm(perm1, perm2):\n                    i += 1", "                if perm1 is None or perm2 is None or not _is_inverse_perm(perm1, perm1):\n                    i += 1", expect="R-C02f")
mutant("c02-reduce-keepdims-check-dropped", "C02", OPT, "            if keepdims != 1:\n                continue\n", "", expect="keepdims")
mutant("c02-reshape-shape-check-dropped", "C02", OPT, "            if not _shapes_compatible(src, dst):\n                i += 1\n                continue\n", "", expect="_shapes_compatible")
mutant("c02-identity-reshape-check-dropped", "C02", OPT, "            if not _shapes_match_exact(src_dims, target_dims):\n                continue\n            dst_val = outs[0]", "            dst_val = outs[0]", expect="_shapes_match_exact")
mutant("c02-cast-observed-intermediate-removed", "C02", OPT, "                                if intermediate_is_observed:\n                                    graph.remove(next_node)\n                                else:\n                                    graph.remove([n, next_node])", "                                graph.remove([n, next_node])", expect="removed::n")
mutant("c02-swish-sigmoid-output-guard-removed", "C02", OPT, "            if not _value_is_observed(\n                graph, remaining_nodes, sigmoid_out\n            ) and not _consumer_nodes(remaining_nodes, sigmoid_out):", "            if not _consumer_nodes(remaining_nodes, sigmoid_out):", expect="removed::sigmoid_node")
mutant("c02-swish-nested-capture-ignored", "C02", OPT, "            if not _value_is_observed(\n                graph, remaining_nodes, sigmoid_out\n            ) and not _consumer_nodes(remaining_nodes, sigmoid_out):", "            if not _value_is_graph_output(graph, sigmoid_out) and not _consumer_nodes(remaining_nodes, sigmoid_out):", expect="nested")
mutant("c02-orphan-transpose-nested-capture-ignored", "C02", OPT, "                if _nested_graph_references_value(nodes, out):\n                    # Only read from inside a Loop/If body: still live.\n                    is_live = True\n                    break\n", "", expect="remove_orphan_transposes_ir")
mutant("c02-nested-predicate-not-recursive", "C02", OPT, "            if _node_attributes_reference(child_node):\n                return True\n        return False", "        return False", expect="R-C02g")
mutant("c02-nested-predicate-ignores-subgraph-outputs", "C02", OPT, "        if any(_matches(output) for output in graph.outputs):\n            return True\n        for child_node in graph:", "        for child_node in graph:", expect="R-C02g")
mutant("c02-orphan-transpose-graph-output-check-removed", "C02", OPT, "                if out_name in graph_output_names:\n                    is_live = True\n                    break\n", "", expect="remove_orphan_transposes_ir")
mutant("c02-prune-inputs-in-function-bodies", "C02", OPT, '        prune_unused_graph_inputs_ir,\n        function_bodies=False,\n', "        prune_unused_graph_inputs_ir,\n", expect="R-C02e")
benign("c02-benign-guard-as-flag-loop", "C02", OPT, "            if _any_node_output_observed(graph, nodes, add_chain):\n                continue\n",
       "            chain_observed = False\n            for chain_member in add_chain:\n                if _value_is_observed(graph, nodes, _node_output(chain_member)):\n                    chain_observed = True\n                    break\n            if chain_observed:\n                continue\n")
benign("c02-benign-reorder-disjuncts", "C02", OPT, "            if _value_is_observed(graph, nodes, t1_out) or _any_node_output_observed(\n                graph, nodes, elem_nodes\n            ):",
       "            if _any_node_output_observed(\n                graph, nodes, elem_nodes\n            ) or _value_is_observed(graph, nodes, t1_out):")
benign("c02-benign-unary-op-added", "C02", OPT, 'ALLOWED_ELEMWISE: Set[str] = {\n    "Elu",', 'ALLOWED_ELEMWISE: Set[str] = {\n    "Softplus",\n    "Elu",')
benign("c02-benign-direct-predicates", "C02", OPT, "            if _value_is_observed(graph, nodes, reducer_out_val):\n", "            if _value_is_graph_output(graph, reducer_out_val) or _nested_graph_references_value(nodes, reducer_out_val):\n")

# ----------------------------------------------------------------------------- C14
multi("c14-process-latch-guards-per-context-registration", "C14", "mutant", [("jax2onnx/plugins/jax/lax/gather.py", "_CONST_HANDLERS_FLAG = \"_gather_const_handlers_registered\"\n", "_CONST_HANDLERS_FLAG = \"_gather_const_handlers_registered\"\n_CONST_HANDLERS_REGISTERED = False\n"), ("jax2onnx/plugins/jax/lax/gather.py", "    if getattr(ctx, _CONST_HANDLERS_FLAG, False):\n        return\n", "    global _CONST_HANDLERS_REGISTERED\n    if _CONST_HANDLERS_REGISTERED:\n        return\n    _CONST_HANDLERS_REGISTERED = True\n")], expect="R-C14f")
mutant("c14-revert-sorted-param-names", "C14", PS, "            for pname in sorted(call_param_names):", "            for pname in call_param_names:", expect="call_param_names")
mutant("c14-set-loop-allocates-names", "C14", OPT, "            for t_out_node in output_transposes:\n                t_out = _node_output(t_out_node)\n                if t_out is None:\n                    continue",
       "            for t_out_node in output_transposes:\n                t_out = _node_output(t_out_node)\n                if t_out is None:\n                    continue\n                graph.insert_before(t_out_node, ir.Node('', 'Identity', inputs=[t_out], outputs=[ir.Value(name='dbg')]))", expect="output_transposes")
mutant("c14-id-in-value-name", "C14", "jax2onnx/converter/ir_optimizations.py", 'name=f"{reducer.name or \'reduce\'}_axes_optimized",', 'name=f"{reducer.name or \'reduce\'}_{id(reducer)}_axes_optimized",', expect="id(reducer)")
mutant("c14-pick-first-of-set", "C14", OPT, "            if t2_node not in output_transposes:\n                continue\n", "            if t2_node not in output_transposes:\n                continue\n            anchor = next(iter(output_transposes))\n            _dbg(anchor)\n", expect="output_transposes")
mutant("c14-hash-sort-key", "C14", OPT, "            graph.remove(list(output_transposes))\n\n            # Remove now-unused input Transpose(perm_fwd) nodes.", "            graph.remove(sorted(output_transposes, key=lambda nd: id(nd)))\n\n            # Remove now-unused input Transpose(perm_fwd) nodes.", expect="id(nd)")
mutant("c14-module-level-name-counter", "C14", "jax2onnx/converter/ir_builder.py", "class IRBuilder:", "_GLOBAL_NAME_COUNTS: dict = {}\n\n\ndef _global_unique(base: str) -> str:\n    _GLOBAL_NAME_COUNTS[base] = _GLOBAL_NAME_COUNTS.get(base, 0) + 1\n    n = _GLOBAL_NAME_COUNTS[base]\n    return ir.Value(name=f\"{base}_{n}\").name\n\n\nclass IRBuilder:", expect="_GLOBAL_NAME_COUNTS")
benign("c14-benign-sorted-twice", "C14", PS, "            for pname in sorted(call_param_names):", "            for pname in sorted(sorted(call_param_names)):")
benign("c14-benign-set-membership-loop", "C14", OPT, "            if t2_node not in output_transposes:\n                continue\n", "            if t2_node not in output_transposes:\n                continue\n            n_inverse = 0\n            for _t in output_transposes:\n                n_inverse += 1\n")

# ----------------------------------------------------------------------------- C01
mutant("c01-searchsorted-promotion-overridden", "C01", "jax2onnx/plugins/jax/numpy/searchsorted.py", "        compare_dtype: np.dtype[Any] = np.promote_types(a_dtype, v_dtype)\n", "        compare_dtype: np.dtype[Any] = np.promote_types(a_dtype, v_dtype)\n        if compare_dtype == np.float64 and not ctx.builder.enable_double_precision:\n            compare_dtype = a_dtype\n", expect="R-C01h")
multi("c01-lpnorm-matcher-without-shape-check", "C01", "mutant", [("jax2onnx/plugins/jax/lax/div.py", "    lhs_rank = len(_shape_tuple(lhs_val))\n", "    lhs_rank = 2\n"), ("jax2onnx/plugins/jax/lax/div.py", "    src_dims = _shape_tuple(broadcast_src)\n    if lhs_rank == 0 or len(src_dims) != lhs_rank:\n        return None\n", "    src_dims = (1, 1)\n")], expect="R-C01f")
mutant("c01-rounding-method-read-but-ignored", "C01", "jax2onnx/plugins/jax/lax/round.py", "        if int(method) == int(jax.lax.RoundingMethod.TO_NEAREST_EVEN):", "        if False:", expect="R-C01e")
mutant("c01-integer-pow-exponent-dead-local", "C01", "jax2onnx/plugins/jax/lax/integer_pow.py", "        exponent = int(params.get(\"y\", 2))", "        _declared_exponent = int(params.get(\"y\", 2))\n        exponent = 2", expect="R-C01e")
mutant("c01-lt-operands-swapped", "C01", "jax2onnx/plugins/jax/lax/lt.py", "ctx.builder.Less(lhs_val, rhs_val,", "ctx.builder.Less(rhs_val, lhs_val,", expect="R-C01d")
mutant("c01-sub-operands-swapped", "C01", "jax2onnx/plugins/jax/lax/sub.py", "ctx.builder.Sub(a_val, b_val, _outputs=[output_name])", "ctx.builder.Sub(b_val, a_val, _outputs=[output_name])", expect="R-C01d")
mutant("c01-div-operands-swapped", "C01", "jax2onnx/plugins/jax/lax/div.py", "ctx.builder.Div(lhs_val, rhs_val, _outputs=[output_name])", "ctx.builder.Div(rhs_val, lhs_val, _outputs=[output_name])", expect="R-C01d")
mutant("c01-jnp-greater-unpack-swapped", "C01", "jax2onnx/plugins/jax/numpy/greater.py", "ctx.builder.Greater(lhs_cmp, rhs_cmp,", "ctx.builder.Greater(rhs_cmp, lhs_cmp,", expect="R-C01d")
benign("c01-benign-lt-as-mirrored-greater", "C01", "jax2onnx/plugins/jax/lax/lt.py", "ctx.builder.Less(lhs_val, rhs_val,", "ctx.builder.Greater(rhs_val, lhs_val,")
mutant("c01-round-ignores-rounding-method", "C01", "jax2onnx/plugins/jax/lax/round.py", '        method = eqn.params.get(\n            "rounding_method", jax.lax.RoundingMethod.AWAY_FROM_ZERO\n        )', "        method = jax.lax.RoundingMethod.AWAY_FROM_ZERO", expect="round_p::rounding_method")
mutant("c01-cumsum-ignores-reverse", "C01", "jax2onnx/plugins/jax/lax/cumsum.py", '        reverse = bool(params.get("reverse", False))', "        reverse = False", expect="cumsum_p::reverse")
mutant("c01-finalize-made-conditional", "C01", "jax2onnx/converter/lowering_dispatch.py", "        finalize_eqn_lowering_outputs(\n            ctx,\n            eqn,\n            lowering_result,", "        if lowering_result is not None:\n          finalize_eqn_lowering_outputs(\n            ctx,\n            eqn,\n            lowering_result,", expect="finalize_eqn_lowering_outputs")
mutant("c01-input-assertion-removed", "C01", "jax2onnx/converter/lowering_dispatch.py", "        assert_eqn_inputs_bound(\n            ctx,\n            eqn,\n            primitive_name=primitive_name,\n            eqn_index=eqn_index,\n        )\n", "", expect="assert_eqn_inputs_bound")
mutant("c01-bound-key-dropped-by-lower", "C01", "jax2onnx/plugins/jax/numpy/transpose.py", "return cls._PRIM.bind(arr, permutation=axes_tuple)", "return cls._PRIM.bind(arr, permutation=axes_tuple, reverse_axes=False)", expect="reverse_axes")
benign("c01-benign-param-via-subscript", "C01", "jax2onnx/plugins/jax/lax/cumsum.py", '        reverse = bool(params.get("reverse", False))', '        reverse = bool(params["reverse"]) if "reverse" in params else False')
mutant("c01-conv-batch-groups-ignored", "C01", "jax2onnx/plugins/jax/lax/conv.py", '        batch_groups = int(params.get("batch_group_count", 1) or 1)\n', "        batch_groups = 1\n", expect="batch_group_count")

# ----------------------------------------------------------------------------- C18
mutant("c18-dtype-class-check-dropped", "C18", UIF, "        if expected_class != got_class:\n", "        if False:\n", expect="R-C18f")
UIF = "jax2onnx/user_interface.py"
multi("c18-session-cache-dict", "C18", "mutant", [(UIF, "def _run_allclose(\n", "_SESSION_CACHE: Dict[str, Any] = {}\n\n\ndef _run_allclose(\n"), (UIF, "    session = ort.InferenceSession(\n        model_path,\n        sess_options=sess_options,\n        providers=[\"CPUExecutionProvider\"],\n    )\n\n    # Prepare ORT inputs", "    if model_path not in _SESSION_CACHE:\n        _SESSION_CACHE[model_path] = ort.InferenceSession(\n            model_path,\n            sess_options=sess_options,\n            providers=[\"CPUExecutionProvider\"],\n        )\n    session = _SESSION_CACHE[model_path]\n\n    # Prepare ORT inputs")], expect="R-C18e")
multi("c18-session-lru-cache-helper", "C18", "mutant", [(UIF, "def _run_allclose(\n", "@functools.lru_cache(maxsize=4)\ndef _cached_session(model_path: str, mtime: float) -> Any:\n    ort = cast(Any, importlib.import_module(\"onnxruntime\"))\n    return ort.InferenceSession(model_path, providers=[\"CPUExecutionProvider\"])\n\n\ndef _run_allclose(\n"), (UIF, "    session = ort.InferenceSession(\n        model_path,\n        sess_options=sess_options,\n        providers=[\"CPUExecutionProvider\"],\n    )\n\n    # Prepare ORT inputs", "    session = _cached_session(model_path, os.path.getmtime(model_path))\n\n    # Prepare ORT inputs"), (UIF, "import importlib\n", "import functools\nimport importlib\n")], expect="R-C18e")
multi("c18-benign-session-builder-helper", "C18", "benign", [(UIF, "def _run_allclose(\n", "def _new_session(model_path: str, sess_options: Any) -> Any:\n    ort = cast(Any, importlib.import_module(\"onnxruntime\"))\n    return ort.InferenceSession(model_path, sess_options=sess_options, providers=[\"CPUExecutionProvider\"])\n\n\ndef _run_allclose(\n"), (UIF, "    session = ort.InferenceSession(\n        model_path,\n        sess_options=sess_options,\n        providers=[\"CPUExecutionProvider\"],\n    )\n\n    # Prepare ORT inputs", "    session = _new_session(model_path, sess_options)\n\n    # Prepare ORT inputs")])
mutant("c18-hand-rolled-nan-blind-comparison", "C18", UIF, "            if not np.allclose(\n                expected_arr,\n                got_cmp,\n                rtol=rtol,\n                atol=atol,\n                equal_nan=True,\n            ):\n                diff = np.abs(expected_arr - got_arr)\n                max_diff = float(diff.max()) if diff.size else 0.0", "            with np.errstate(invalid=\"ignore\", over=\"ignore\"):\n                diff = np.abs(expected_arr - got_cmp)\n                exceeded = diff > atol + rtol * np.abs(got_cmp)\n            if exceeded.any():\n                max_diff = float(diff[exceeded].max())", expect="value-comparison")
benign("c18-benign-hand-rolled-strict-comparison", "C18", UIF, "            if not np.allclose(\n                expected_arr,\n                got_cmp,\n                rtol=rtol,\n                atol=atol,\n                equal_nan=True,\n            ):\n                diff = np.abs(expected_arr - got_arr)\n                max_diff = float(diff.max()) if diff.size else 0.0", "            diff = np.abs(expected_arr - got_cmp)\n            within = diff <= atol + rtol * np.abs(got_cmp)\n            if not within.all():\n                max_diff = float(diff.max()) if diff.size else 0.0")
mutant("c18-revert-narrowing-cast", "C18", UIF, "            got_cmp = got_arr\n            if _is_floating_dtype(expected_arr) and _is_floating_dtype(got_arr):\n                got_cmp = got_arr.astype(expected_arr.dtype, copy=False)", "            got_cmp = got_arr.astype(expected_arr.dtype, copy=False)", expect="R-C18b")
mutant("c18-int-branch-cast-to-reference", "C18", UIF, "            if not np.array_equal(expected_arr, got_arr):", "            if not np.array_equal(expected_arr, got_arr.astype(expected_arr.dtype)):", expect="R-C18b")
mutant("c18-shape-check-removed", "C18", UIF, "        if expected_arr.shape != got_arr.shape:\n            return (\n                False,", "        if False:\n            return (\n                False,", expect="shape-comparison")
mutant("c18-count-check-removed", "C18", UIF, "    if len(jax_outputs) != len(ort_outputs):\n        return (\n            False,", "    if len(jax_outputs) > 10**9:\n        return (\n            False,", expect="count-comparison")
mutant("c18-compares-reference-with-itself", "C18", UIF, "            if not np.array_equal(expected_arr, got_arr):", "            if not np.array_equal(expected_arr, expected_arr):", expect="operands")
mutant("c18-failure-reported-as-match", "C18", UIF, '                return (False, f"Output {idx} mismatch (non-floating tensors differ)")', '                return (True, f"Output {idx} mismatch (non-floating tensors differ)")', expect="value-comparison")
mutant("c18-missing-feed-skipped", "C18", UIF, "            except StopIteration as exc:  # pragma: no cover - defensive\n                raise ValueError(\n                    f\"Not enough positional inputs provided for ORT (missing value for '{name}')\"\n                ) from exc", "            except StopIteration:  # pragma: no cover - defensive\n                continue", expect="feed-every-input")
mutant("c18-x64-context-dropped", "C18", UIF, "    with _temporary_x64(enable_double_precision):\n        with jax.default_matmul_precision(\"float32\"):\n            return _run_allclose(",
       "    jax.config.update(\"jax_enable_x64\", bool(enable_double_precision))\n    if True:\n        with jax.default_matmul_precision(\"float32\"):\n            return _run_allclose(", expect="temporary-x64")
benign("c18-benign-eq-form", "C18", UIF, "        if expected_arr.shape != got_arr.shape:", "        if got_arr.shape != expected_arr.shape:")

# ----------------------------------------------------------------------------- C09
mutant("c09-constants-widen-float16-too", "C09", "jax2onnx/converter/ir_context.py", "        if self.builder.enable_double_precision and arr.dtype == np.float32:", "        if self.builder.enable_double_precision and np.issubdtype(arr.dtype, np.floating) and arr.dtype != np.float64:", expect="R-C09f")
mutant("c09-manual-x64-save-restore", "C09", UIF, "    with _jax_x64_scope(enabled):\n        yield\n", "    prev = jax.config.jax_enable_x64\n    try:\n        if enabled != prev:\n            jax.config.update(\"jax_enable_x64\", enabled)\n        yield\n    finally:\n        if jax.config.jax_enable_x64 != prev:\n            jax.config.update(\"jax_enable_x64\", prev)\n", expect="global-write-context-read")
mutant("c09-default-float64-constant", "C09", "jax2onnx/plugins/jax/lax/rsqrt.py", "            np.asarray(1.0, dtype=np_dtype),", "            np.asarray(1.0),", expect="bind_const_for_var")
mutant("c09-default-float64-half", "C09", "jax2onnx/plugins/jax/lax/round.py", "np.asarray(0.5, dtype=np_dtype)", "np.asarray(0.5)", expect="round.py")
mutant("c09-np-ones-without-dtype", "C09", "jax2onnx/plugins/jax/lax/rsqrt.py", "            np.asarray(1.0, dtype=np_dtype),", "            np.ones(()),", expect="np.ones")
mutant("c09-saved-flag-read-after-update", "C09", UIF, '    prev = jax.config.jax_enable_x64\n    try:\n        if enabled != prev:\n            jax.config.update("jax_enable_x64", enabled)\n        yield',
       '    try:\n        jax.config.update("jax_enable_x64", enabled)\n        prev = jax.config.jax_enable_x64\n        yield', expect="R-C09a")
mutant("c09-restore-writes-constant", "C09", "jax2onnx/converter/conversion_api.py", '        if previous != target:\n            jax.config.update("jax_enable_x64", previous)', '        if previous != target:\n            jax.config.update("jax_enable_x64", False)', expect="R-C09a")
mutant("c09-spec-dtype-canonicalised-outside-scope", "C09", UIF, "            normalized.append(jax.ShapeDtypeStruct(dims, item.dtype))", "            normalized.append(jax.ShapeDtypeStruct(dims, jax.dtypes.canonicalize_dtype(item.dtype)))", expect="outside-x64-scope")
mutant("c09-allclose-inputs-to-jnp-outside-scope", "C09", UIF, "    xs = _validation_inputs_to_arrays(inputs)\n\n    params = dict(input_params or {})\n    with _temporary_x64", "    xs = [jnp.asarray(v) for v in _validation_inputs_to_arrays(inputs)]\n\n    params = dict(input_params or {})\n    with _temporary_x64", expect="outside-x64-scope")
benign("c09-benign-spec-dtype-np", "C09", UIF, "            normalized.append(jax.ShapeDtypeStruct(dims, item.dtype))", "            normalized.append(jax.ShapeDtypeStruct(dims, np.dtype(item.dtype)))")
benign("c09-benign-positional-dtype", "C09", "jax2onnx/plugins/jax/lax/round.py", "np.asarray(0.5, dtype=np_dtype)", "np.array(0.5, np_dtype)")
benign("c09-benign-astype", "C09", "jax2onnx/plugins/jax/lax/round.py", "np.asarray(0.5, dtype=np_dtype)", "np.asarray(0.5).astype(np_dtype)")

# ----------------------------------------------------------------------------- C15
mutant("c15-export-mode-returned-unnormalised", "C15", UIF, "def _normalize_export_mode(value: str) -> ExportMode:\n    mode = value.lower().strip()\n    if mode not in _VALID_EXPORT_MODES:", "def _normalize_export_mode(value: str) -> ExportMode:\n    mode = value.strip()\n    if mode.lower() not in _VALID_EXPORT_MODES:", expect="R-C15d")
benign("c15-benign-export-mode-casefold", "C15", UIF, "def _normalize_export_mode(value: str) -> ExportMode:\n    mode = value.lower().strip()", "def _normalize_export_mode(value: str) -> ExportMode:\n    mode = value.strip().casefold()")
mutant("c15-naming-after-ir-return", "C15", UIF, "    _apply_custom_io_names_on_ir(\n        result,\n        input_names=normalized_input_names,\n        output_names=normalized_output_names,\n        positional_input_count=len(normalized_inputs),\n    )\n    if normalized_mode == \"ir\":\n        return result\n",
       "    if normalized_mode == \"ir\":\n        return result\n    _apply_custom_io_names_on_ir(\n        result,\n        input_names=normalized_input_names,\n        output_names=normalized_output_names,\n        positional_input_count=len(normalized_inputs),\n    )\n", expect="_apply_custom_io_names_on_ir")
mutant("c15-params-only-for-proto", "C15", UIF, "    _materialize_input_params_on_ir(result, param_map)\n", "    if normalized_mode != \"ir\":\n        _materialize_input_params_on_ir(result, param_map)\n", expect="_materialize_input_params_on_ir")
mutant("c15-web-external-data", "C15", UIF, "            onnx.save_model(model_proto, dest, save_as_external_data=False)", "            onnx.save_model(model_proto, dest, save_as_external_data=True, size_threshold=external_threshold)", expect="web-single-file")
mutant("c15-web-stale-sidecar-kept", "C15", UIF, "            try:\n                if os.path.exists(data_path):\n                    os.remove(data_path)\n            except OSError:\n                pass\n            return dest", "            return dest", expect="web-stale-sidecar")
mutant("c15-sidecar-fixed-name", "C15", UIF, '        data_location = os.path.basename(dest) + ".data"', '        data_location = "model.data"', expect="standard-sidecar-location")
multi("c15-spill-decided-before-save", "C15", "mutant", [(UIF, "        onnx.save_model(\n            model_proto,\n            dest,\n            save_as_external_data=True,", "        spills = any(len(init.raw_data) >= external_threshold for init in model_proto.graph.initializer)\n        onnx.save_model(\n            model_proto,\n            dest,\n            save_as_external_data=True,"), (UIF, "        if not any(init.external_data for init in model_proto.graph.initializer):", "        if not spills:")], expect="standard-sidecar-removal")
mutant("c15-sidecar-removed-unconditionally", "C15", UIF, "        if not any(init.external_data for init in model_proto.graph.initializer):\n", "        if True:\n", expect="standard-sidecar-removal")
mutant("c15-remove-nonempty-sidecar-top-level-test-only", "C15", UIF, "                if os.path.exists(data_path) and os.path.getsize(data_path) == 0:", "                if os.path.exists(data_path):", expect="standard-sidecar-removal")
benign("c15-benign-external-flag-after-save", "C15", UIF, "        if not any(init.external_data for init in model_proto.graph.initializer):\n", "        references_sidecar = any(init.external_data for init in model_proto.graph.initializer)\n        if not references_sidecar:\n")
benign("c15-benign-dispatch-order", "C15", UIF, "    model_proto = ir.to_proto(result)\n    if normalized_mode == \"file\":", "    model_proto = ir.to_proto(result)\n    if \"file\" == normalized_mode:")

# ----------------------------------------------------------------------------- C05
mutant("c05-nchw-input-type-ignores-precision-flag", "C05", "jax2onnx/converter/conversion_api.py", "            type=ir.TensorType(\n                _dtype_to_ir(np.dtype(var.aval.dtype), self.enable_double_precision)\n            ),", "            type=ir.TensorType(_to_ir_dtype_from_np(np.dtype(var.aval.dtype))),", expect="graph-input-type-policy")
mutant("c05-input-type-constant", "C05", "jax2onnx/converter/ir_context.py", "            name=f\"in_{index}\",\n            type=ir.TensorType(_dtype_to_ir(aval_dtype, promote_flag)),", "            name=f\"in_{index}\",\n            type=ir.TensorType(_dtype_to_ir(np.dtype(np.float32), promote_flag)),", expect="R-C05e")
mutant("c05-output-type-from-default-float", "C05", "jax2onnx/converter/ir_context.py", "                target_enum = _dtype_to_ir(\n                    np_dtype, self.builder.enable_double_precision\n                )\n            current_type = v.type", "                target_enum = _dtype_to_ir(\n                    np.dtype(self._default_float_dtype), self.builder.enable_double_precision\n                )\n            current_type = v.type", expect="R-C05e")
mutant("c05-revert-nchw-keep", "C05", OPT, '            if suffix.endswith("_nchw"):\n                suffix = suffix[: -len("_nchw")]\n', "", expect="_should_always_keep")
mutant("c05-regex-loses-nchw", "C05", UIF, 'r"^in_(\\d+)(?:_nchw)?$"', 'r"^in_(\\d+)$"', expect="_POSITIONAL_INPUT_NAME_RE")
mutant("c05-new-writer-pattern", "C05", "jax2onnx/converter/conversion_api.py", 'name=f"in_{index}_nchw",', 'name=f"in_{index}_as_nchw",', expect="in_")
mutant("c05-prune-in-function-bodies", "C05", OPT, '        prune_unused_graph_inputs_ir,\n        function_bodies=False,\n', "        prune_unused_graph_inputs_ir,\n", expect="top-graph-only")
mutant("c05-prune-reorders-inputs", "C05", OPT, "        graph.inputs.extend(keep)", "        graph.inputs.extend(sorted(keep, key=lambda v: v.name or ''))", expect="order-and-keep")
mutant("c05-uniqueness-check-removed", "C05", UIF, '    if len(set(targets)) != len(targets):\n        raise ValueError("Custom input/output names must be globally unique.")\n', "", expect="unique-targets")
mutant("c05-collision-check-after-rename", "C05", UIF, "    collisions = sorted(name for name in targets if name in occupied_by_other)\n    if collisions:", "    collisions = sorted(name for name in targets if name in occupied_by_other)\n    if collisions and False:", expect="collision")
mutant("c05-inputs-dropped-elsewhere", "C05", UIF, "    _materialize_input_params_on_ir(result, param_map)\n", "    _materialize_input_params_on_ir(result, param_map)\n    if not param_map:\n        graph = result.graph\n        graph.inputs.pop()\n", expect="removes-graph-inputs")
benign("c05-benign-regex-equivalent", "C05", UIF, 'r"^in_(\\d+)(?:_nchw)?$"', 'r"^in_([0-9]+)(?:_nchw)?$"')
benign("c05-benign-keep-rewritten", "C05", OPT, '            if suffix.endswith("_nchw"):\n                suffix = suffix[: -len("_nchw")]\n', '            suffix = suffix.removesuffix("_nchw")\n')

# ----------------------------------------------------------------------------- C12
CAF = "jax2onnx/converter/conversion_api.py"
mutant("c12-perm-constant-wrong", "C12", CAF, "_NHWC_TO_NCHW_PERM: tuple[int, int, int, int] = (0, 3, 1, 2)", "_NHWC_TO_NCHW_PERM: tuple[int, int, int, int] = (0, 3, 2, 1)", expect="_NHWC_TO_NCHW_PERM")
mutant("c12-input-bridge-wrong-direction", "C12", CAF, "            perm=list(_NCHW_TO_NHWC_PERM),", "            perm=list(_NHWC_TO_NCHW_PERM),", expect="transpose-direction")
mutant("c12-output-shape-wrong-perm", "C12", CAF, "                tuple(src_dims[p] for p in _NHWC_TO_NCHW_PERM)", "                tuple(src_dims[p] for p in _NCHW_TO_NHWC_PERM)", expect="declared-shape")
mutant("c12-rank-check-dropped", "C12", CAF, '        self._require_4d(aval_shape, kind="output", index=index)\n', "", expect="require-4d")
mutant("c12-require-4d-accepts-rank3", "C12", CAF, "        if len(shape) == 4:\n            return", "        if len(shape) >= 3:\n            return", expect="_require_4d")
mutant("c12-duplicate-indices-accepted", "C12", CAF, '        if idx in seen:\n            raise ValueError(f"{kind} indices must be unique; duplicate {idx} found")\n', "", expect="duplicate")
mutant("c12-raw-indices-used", "C12", CAF, "        validated_inputs_as_nchw = trace.inputs_as_nchw\n", "        validated_inputs_as_nchw = tuple(inputs_as_nchw or ())\n", expect="validated")
mutant("c12-origins-on-internal-value", "C12", CAF, "        self.ctx.record_symbolic_dim_origins(nchw_shape, nchw_input_val)", "        self.ctx.record_symbolic_dim_origins(aval_shape, transposed)", expect="origin-on-external-value")
mutant("c12-all-outputs-bridged", "C12", CAF, "            if index in nchw_outputs_indices:\n                self.bind_output(out_var, index)\n            else:\n                self.ctx.add_outputs_from_vars([out_var])", "            if index in nchw_outputs_indices or len(out_var.aval.shape) == 4:\n                self.bind_output(out_var, index)\n            else:\n                self.ctx.add_outputs_from_vars([out_var])", expect="plain-path")
benign("c12-benign-perm-as-list", "C12", CAF, "            perm=list(_NCHW_TO_NHWC_PERM),", "            perm=[int(p) for p in _NCHW_TO_NHWC_PERM],")

# ----------------------------------------------------------------------------- C07
mutant("c07-key-erases-symbolic-dims", "C07", PS, "            shape = tuple(getattr(aval, \"shape\", ()))\n            dtype = getattr(aval, \"dtype\", None)\n            in_sigs.append((shape, str(dtype)))", "            shape = tuple(int(d) if isinstance(d, (int, np.integer)) else \"?\" for d in getattr(aval, \"shape\", ()))\n            dtype = getattr(aval, \"dtype\", None)\n            in_sigs.append((shape, str(dtype)))", expect="input-signature")
benign("c07-benign-key-dims-as-repr", "C07", PS, "            shape = tuple(getattr(aval, \"shape\", ()))\n            dtype = getattr(aval, \"dtype\", None)\n            in_sigs.append((shape, str(dtype)))", "            shape = tuple(repr(d) for d in getattr(aval, \"shape\", ()))\n            dtype = getattr(aval, \"dtype\", None)\n            in_sigs.append((shape, str(dtype)))")
mutant("c07-capture-items-sorted-before-key", "C07", PS, "        param_values = [entry[\"ir_value\"] for entry in dynamic_entries]\n", "        param_values = [entry[\"ir_value\"] for entry in dynamic_entries]\n        capture_items.sort(key=lambda item: item[0])\n", expect="R-C07e")
mutant("c07-key-sorted-captures", "C07", PS, "            capture_sig = (id(callee), tuple(capture_items))", "            capture_sig = (id(callee), tuple(sorted(capture_items)))", expect="R-C07e")
mutant("c07-unique-key-frozenset-captures", "C07", PS, '            ("captures", tuple(capture_items)),', '            ("captures", frozenset(capture_items)),', expect="R-C07e")
benign("c07-benign-captures-tuple-via-list", "C07", PS, "            capture_sig = (id(callee), tuple(capture_items))", "            capture_sig = (id(callee), tuple(list(capture_items)))")
mutant("c07-revert-static-fallback", "C07", PS, '                                "static",\n                                type(value_for_capture).__name__,\n                                repr(value_for_capture),\n', '                                "static",\n                                type(value_for_capture).__name__,\n', expect="capture-payload::static")
mutant("c07-input-signature-without-dtype", "C07", PS, "            in_sigs.append((shape, str(dtype)))", "            in_sigs.append((shape,))", expect="input-signature")
mutant("c07-input-signature-rank-only", "C07", PS, "            in_sigs.append((shape, str(dtype)))", "            in_sigs.append((len(getattr(aval, 'shape', ())), str(dtype)))", expect="input-signature")
mutant("c07-const-capture-python-hash-for-scalars", "C07", PS, "                hash(arr.tobytes()),\n", "                hash(arr.item()) if arr.ndim == 0 else hash(arr.tobytes()),\n", expect="python-hash")
mutant("c01-dot-general-gemm-ignores-lhs-contracting-axis", "C01", "jax2onnx/plugins/jax/lax/dot_general.py", "        if lhs_contract_axis == 0:\n            # Gemm contracts A's last axis; the lhs contracts its first one.\n            gemm_attrs[\"transA\"] = 1\n", "", expect="R-C01j")
multi("c01-dot-general-gemm-lhs-axis-unchecked", "C01", "mutant", [("jax2onnx/plugins/jax/lax/dot_general.py", "        lhs_contract_axis = lhs_contract[0]\n        if lhs_contract_axis not in (0, 1):\n            return False\n", ""), ("jax2onnx/plugins/jax/lax/dot_general.py", "        if lhs_contract_axis == 0:\n            # Gemm contracts A's last axis; the lhs contracts its first one.\n            gemm_attrs[\"transA\"] = 1\n", "")], expect="R-C01j")
benign("c01-benign-dot-general-transA-always-set", "C01", "jax2onnx/plugins/jax/lax/dot_general.py", "        gemm_attrs: dict[str, Any] = {\"alpha\": 1.0, \"beta\": 0.0}\n        if lhs_contract_axis == 0:\n            # Gemm contracts A's last axis; the lhs contracts its first one.\n            gemm_attrs[\"transA\"] = 1\n", "        gemm_attrs: dict[str, Any] = {\"alpha\": 1.0, \"beta\": 0.0, \"transA\": int(lhs_contract_axis == 0)}\n")
mutant("c01-function-key-merges-minus-one-and-minus-two", "C01", PS, "                hash(arr.tobytes()),\n", "                hash(value) if isinstance(value, (int, float)) else hash(arr.tobytes()),\n", expect="R-C01i")
benign("c07-benign-const-capture-raw-bytes", "C07", PS, "                hash(arr.tobytes()),\n", "                arr.tobytes(),\n")
mutant("c07-const-capture-without-bytes", "C07", PS, "                str(arr.dtype),\n                hash(arr.tobytes()),\n            )", "                str(arr.dtype),\n            )", expect="_capture_const")
mutant("c07-key-without-captures", "C07", PS, "            qualified_name=qualname, input_sig=in_sigs_t, capture_sig=capture_sig\n", "            qualified_name=qualname, input_sig=in_sigs_t, capture_sig=(id(callee),)\n", expect="FunctionKey")
mutant("c07-static-param-skipped", "C07", PS, "                value_for_capture = resolved if resolved is not None else original_val\n", "                value_for_capture = resolved if resolved is not None else original_val\n                if isinstance(value_for_capture, (bool, str)):\n                    static_params[pname] = original_val\n                    continue\n", expect="capture-per-parameter")
mutant("c07-default-mode-ignores-instance", "C07", PS, "            capture_sig = (id(callee), tuple(capture_items))", "            capture_sig = (tuple(capture_items),)", expect="callee-identity")
mutant("c07-unique-ignores-instance-state", "C07", PS, '            signature_parts.append(\n                ("instance_state", self._fingerprint_instance_state(callee))\n            )\n', "", expect="_build_unique_signature")
mutant("c07-array-fingerprint-shape-only", "C07", PS, '                return ("array", shape, dtype, digest)', '                return ("array", shape, dtype)', expect="_value_fingerprint")
benign("c07-benign-payload-order", "C07", PS, "            in_sigs.append((shape, str(dtype)))", "            in_sigs.append((str(dtype), shape))")

# ----------------------------------------------------------------------------- C04
LDF = "jax2onnx/converter/lower_dimexpr.py"
multi("c04-revert-memo-tags", "C04", "mutant", [(LDF, 'key = f"factor:{factor}"', "key = str(factor)"), (LDF, 'key = f"coeff_term:{term}"', "key = str(term)")], expect="memo-key")
mutant("c04-two-producers-same-tag", "C04", LDF, 'key = f"coeff_term:{term}"', 'key = f"factor:{term}"', expect="memo-key")
mutant("c04-floordiv-as-mod", "C04", LDF, "                self.ctx.builder.Div(\n                    operands[0],\n                    operands[1],", "                self.ctx.builder.Mod(\n                    operands[0],\n                    operands[1],", expect="floordiv")
mutant("c04-floordiv-operands-swapped", "C04", LDF, "                self.ctx.builder.Div(\n                    operands[0],\n                    operands[1],", "                self.ctx.builder.Div(\n                    operands[1],\n                    operands[0],", expect="floordiv")
mutant("c04-unknown-op-silently-first-operand", "C04", LDF, '            raise RuntimeError(f"Unhandled operation in LowerDimExpr: {name}")', "            result = operands[0]", expect="unknown-operation")
mutant("c04-input-origins-not-recorded", "C04", "jax2onnx/converter/ir_context.py", "        self.add_graph_input_value(val)\n        self.record_symbolic_dim_origins(shp, val)\n        return val", "        self.add_graph_input_value(val)\n        return val", expect="origins::val")
mutant("c04-axis-pairing-broken", "C04", "jax2onnx/converter/ir_context.py", "        for dim, axis in zip(dims_tuple, axes_tuple):\n            self.record_symbolic_dim_origin(dim, value, axis)", "        for dim, axis in zip(dims_tuple, axes_tuple):\n            self.record_symbolic_dim_origin(dim, value, 0)", expect="axis-pairing")
mutant("c04-scope-per-symbol", "C04", CAF, "        syms = jax_export.symbolic_shape(n, scope=shared_scope)", "        syms = jax_export.symbolic_shape(n)", expect="symbolic_shape-scope")
benign("c04-benign-tag-rename", "C04", LDF, 'key = f"coeff_term:{term}"', 'key = f"term_with_coefficient:{term}"')

# ----------------------------------------------------------------------------- C06
mutant("c06-while-condition-on-unmasked-candidates", "C06", "jax2onnx/plugins/jax/lax/while_loop.py", "    cond_inputs = cond_const_inputs + state_outputs\n", "    cond_inputs = cond_const_inputs + state_candidates\n", expect="R-C06f")
FLF = "jax2onnx/plugins/jax/lax/fori_loop.py"
mutant("c06-fori-trip-count-ignores-lower", "C06", FLF, "        trip_count = int(np.asarray(upper).item()) - int(np.asarray(lower).item())", "        trip_count = int(np.asarray(upper).item())", expect="R-C06e")
mutant("c06-fori-index-offset-dropped", "C06", FLF, "    if lower != 0:\n        lower_const = _scalar_i64(body_ctx, int(lower), \"fori_lower\")", "    if lower != 0 and False:\n        lower_const = _scalar_i64(body_ctx, int(lower), \"fori_lower\")", expect="R-C06e")
mutant("c06-fori-bind-lower-zero", "C06", FLF, "            lower=int(lower),\n        )\n        return tree_util.tree_unflatten(treedef, flat_result)", "            lower=0,\n        )\n        return tree_util.tree_unflatten(treedef, flat_result)", expect="R-C06e")
mutant("c06-fori-index-offset-only-when-narrowing", "C06", FLF, "    if lower != 0:\n        lower_const = _scalar_i64(body_ctx, int(lower), \"fori_lower\")", "    if iter_enum != ir.DataType.INT64 and lower != 0:\n        lower_const = _scalar_i64(body_ctx, int(lower), \"fori_lower\")", expect="R-C06e")
mutant("c19-dpa-default-length-read-from-heads-axis", "C19", "jax2onnx/plugins/jax/nn/dot_product_attention.py", "                    k_len = k.shape[1]\n", "                    k_len = k.shape[2]\n", expect="R-C19h")
mutant("c19-dpa-user-mask-overwrites-window-mask", "C19", "jax2onnx/plugins/jax/nn/dot_product_attention.py", "            if mask_bool is None:\n                mask_bool = user_mask_bool\n            else:", "            if True:\n                mask_bool = user_mask_bool\n            else:", expect="R-C19g")
mutant("c19-dpa-length-mask-overwrites-mask", "C19", "jax2onnx/plugins/jax/nn/dot_product_attention.py", "            if mask_bool is None:\n                mask_bool = length_mask_bool\n            else:", "            if mask_bool is None or True:\n                mask_bool = length_mask_bool\n            else:", expect="R-C19g")
benign("c19-benign-dpa-default-length-negative-index", "C19", "jax2onnx/plugins/jax/nn/dot_product_attention.py", "                    k_len = k.shape[1]\n", "                    k_len = k.shape[-3]\n")
mutant("c19-fori-lower-dropped-when-index-is-int64", "C19", FLF, "    if lower != 0:\n        lower_const = _scalar_i64(body_ctx, int(lower), \"fori_lower\")", "    if iter_enum != ir.DataType.INT64 and lower != 0:\n        lower_const = _scalar_i64(body_ctx, int(lower), \"fori_lower\")", expect="R-C19f")
benign("c06-benign-fori-lower-compare-flipped", "C06", FLF, "    if lower != 0:\n        lower_const = _scalar_i64(body_ctx, int(lower), \"fori_lower\")", "    if 0 != lower:\n        lower_const = _scalar_i64(body_ctx, int(lower), \"fori_lower\")")
benign("c06-benign-fori-lower-truthiness", "C06", FLF, "    if lower != 0:\n        lower_const = _scalar_i64(body_ctx, int(lower), \"fori_lower\")", "    if lower:\n        lower_const = _scalar_i64(body_ctx, int(lower), \"fori_lower\")")
benign("c06-benign-fori-trip-count-names", "C06", FLF, "        trip_count = int(np.asarray(upper).item()) - int(np.asarray(lower).item())", "        hi = int(np.asarray(upper).item())\n        lo = int(np.asarray(lower).item())\n        trip_count = hi - lo")
multi("c06-scan-trip-count-from-scatter-extent", "C06", "mutant", [("jax2onnx/plugins/jax/lax/scan.py", "        if trip_count_int is not None:\n            trip_count_val = _scalar_i64(ctx, trip_count_int, \"scan_trip_count\")\n        else:\n            first_seq_val = ctx.get_value_for_var(seq_invars[0])\n            shape_val = _shape_of(ctx, first_seq_val, \"scan_seq_shape\")\n            trip_count_val = _gather_int_scalar(ctx, shape_val, 0, \"scan_trip_dynamic\")", "        if scatter_static_extent is None:\n            if trip_count_int is not None:\n                trip_count_val = _scalar_i64(ctx, trip_count_int, \"scan_trip_count\")\n            else:\n                first_seq_val = ctx.get_value_for_var(seq_invars[0])\n                shape_val = _shape_of(ctx, first_seq_val, \"scan_seq_shape\")\n                trip_count_val = _gather_int_scalar(ctx, shape_val, 0, \"scan_trip_dynamic\")")], expect="trip-count")
LAXD = "jax2onnx/plugins/jax/lax/"
mutant("c06-cond-branches-swapped-at-unpack", "C06", LAXD + "cond.py", '        false_closed, true_closed = params["branches"]', '        true_closed, false_closed = params["branches"]', expect="then-else")
mutant("c06-cond-then-else-swapped", "C06", LAXD + "cond.py", "            then_branch=then_graph,\n            else_branch=else_graph,", "            then_branch=else_graph,\n            else_branch=then_graph,", expect="then-else")
mutant("c06-switch-truncated-to-two", "C06", LAXD + "cond.py", '        false_closed, true_closed = params["branches"]', '        false_closed, true_closed, *_more = params["branches"]', expect="two-branches")
mutant("c06-reverse-scan-accepted", "C06", LAXD + "scan.py", '        if params.get("reverse", False):\n            raise NotImplementedError("Reverse scan is not supported in IR pipeline.")\n', "", expect="reverse::")
mutant("c06-while-constant-initial-condition", "C06", LAXD + "while_loop.py", "        loop_inputs = [trip_count, cond_init_val]", "        cond_true = ctx.builder.add_initializer_from_array(name=ctx.fresh_name('while_cond_true'), array=np.asarray(True))\n        loop_inputs = [trip_count, cond_true]", expect="initial-condition")
mutant("c06-fori-trip-count-constant", "C06", LAXD + "fori_loop.py", "            value=np.asarray(trip_count, dtype=np.int64),", "            value=np.asarray(max(1, 1), dtype=np.int64),", expect="trip-count")
mutant("c06-scan-extent-mismatch-accepted", "C06", LAXD + "scan.py", "                if int(dim0) != trip_count_int:\n", "                if False:\n", expect="scanned-extent")
benign("c06-benign-rename-branch-locals", "C06", LAXD + "cond.py", "            then_branch=then_graph,\n            else_branch=else_graph,", "            else_branch=else_graph,\n            then_branch=then_graph,")

# ----------------------------------------------------------------------------- C16
LDP = "jax2onnx/converter/lowering_dispatch.py"
mutant("c16-missing-plugin-returns-none", "C16", LDP, "    detail_text = f\" {detail}\" if detail else \"\"\n    raise NotImplementedError(", "    detail_text = f\" {detail}\" if detail else \"\"\n    if source == \"control_flow\":\n        return None\n    raise NotImplementedError(", expect="get_registered_lowering_plugin")
mutant("c16-strict-switch-ignored", "C16", CAF, "        if _resolve_strict_optimizer_failures(strict_optimizer_failures):\n            raise\n", "", expect="strict-reraise")
mutant("c16-env-switch-dropped", "C16", CAF, "    return _env_flag_enabled(_STRICT_OPTIMIZER_FAILURES_ENV)", "    return False", expect="precedence")
mutant("c16-plugin-swallows-lowering-error", "C16", "jax2onnx/plugins/jax/lax/tanh.py", "        result = ctx.builder.Tanh(x_val, _outputs=[desired_name])", "        try:\n            result = ctx.builder.Tanh(x_val, _outputs=[desired_name])\n        except Exception:\n            return", expect="swallow")
mutant("c16-dim-origin-missing-tolerated", "C16", LDF, "        if origin is None:\n            raise ValueError(f\"No symbolic dim origin registered for '{name}'\")\n", "        if origin is None:\n            return self._get_scalar(1)\n", expect="missing-origin-raises")
benign("c16-benign-narrow-handler", "C16", "jax2onnx/plugins/jax/lax/tanh.py", "        result = ctx.builder.Tanh(x_val, _outputs=[desired_name])", "        try:\n            result = ctx.builder.Tanh(x_val, _outputs=[desired_name])\n        except AttributeError:\n            raise")

# ----------------------------------------------------------------------------- C03
mutant("c03-function-output-aliases-input", "C03", "jax2onnx/plugins/plugin_system.py", "                if id(out_val) not in child_input_ids:\n                    continue\n", "                continue\n", expect="R-C03h")
CFU = "jax2onnx/plugins/jax/lax/_control_flow_utils.py"
mutant("c03-subgraph-shares-sym-origin-table", "C03", CFU, "    child_ctx_any._sym_origin = dict(getattr(parent_ctx, \"_sym_origin\", {}))", "    child_ctx_any._sym_origin = getattr(parent_ctx, \"_sym_origin\", {})", expect="R-C03f")
benign("c03-benign-subgraph-sym-origin-copy-method", "C03", CFU, "    child_ctx_any._sym_origin = dict(getattr(parent_ctx, \"_sym_origin\", {}))", "    child_ctx_any._sym_origin = getattr(parent_ctx, \"_sym_origin\", {}).copy()")
WLF = "jax2onnx/plugins/jax/lax/while_loop.py"
mutant("c03-while-const-slice-ignores-predicate-output", "C03", WLF, "        const_outputs = loop_outputs[\n            output_offset : output_offset + len(body_const_vals)\n        ]", "        const_outputs = loop_outputs[: len(body_const_vals)]", expect="R-C03e")
mutant("c03-while-value-outputs-start-early", "C03", WLF, "        value_outputs = loop_outputs[cond_const_offset + len(cond_const_vals) :]", "        value_outputs = loop_outputs[cond_const_offset:]", expect="R-C03e")
mutant("c03-while-const-groups-swapped", "C03", WLF, "        for const_val, const_out in zip(cond_const_vals, cond_const_outputs):", "        for const_val, const_out in zip(cond_const_vals, const_outputs):", expect="R-C03e")
SCF = "jax2onnx/plugins/jax/lax/scan.py"
mutant("c03-scan-carry-offset-drops-cond", "C03", SCF, "        carry_outputs_start = 1 + num_consts\n", "        carry_outputs_start = num_consts\n", expect="R-C03e", count=2)
mutant("c03-scan-seq-outputs-skip-missing", "C03", SCF, "        outputs_start_with_seq = 1 + num_consts + num_carry + len(sequence_states)", "        outputs_start_with_seq = 1 + num_consts + num_carry", expect="R-C03e")
mutant("c03-scan-const-slice-shifted", "C03", SCF, "        const_body_outs = body_outputs[1 : 1 + num_consts]", "        const_body_outs = body_outputs[: num_consts]", expect="R-C03e", count=2)
benign("c03-benign-scan-offset-reassociated", "C03", SCF, "        outputs_start_with_seq = 1 + num_consts + num_carry + len(sequence_states)", "        outputs_start_with_seq = len(sequence_states) + num_carry + (num_consts + 1)")
mutant("c03-while-output-groups-reordered", "C03", WLF, "        output_names.extend(ctx.fresh_name(\"while_const_out\") for _ in body_const_vals)\n        output_names.extend(\n            ctx.fresh_name(\"while_cond_const_out\") for _ in cond_const_vals\n        )", "        output_names.extend(\n            ctx.fresh_name(\"while_cond_const_out\") for _ in cond_const_vals\n        )\n        output_names.extend(ctx.fresh_name(\"while_const_out\") for _ in body_const_vals)", expect="R-C03e")
benign("c03-benign-while-slice-inline-offset", "C03", WLF, "        const_outputs = loop_outputs[\n            output_offset : output_offset + len(body_const_vals)\n        ]", "        const_outputs = loop_outputs[\n            int(batched_condition) : int(batched_condition) + len(body_const_vals)\n        ]")
mutant("c03-hard-coded-value-name", "C03", "jax2onnx/plugins/jax/lax/tanh.py", "        result = ctx.builder.Tanh(x_val, _outputs=[desired_name])", '        result = ctx.builder.Tanh(x_val, _outputs=["tanh_out"])', expect="tanh_out")
mutant("c03-literal-helper-value-in-loop", "C03", OPT, "                    if false_value is None:\n", "                    if True:\n", expect="false_const")
mutant("c03-subgraph-builder-not-prefixed", "C03", "jax2onnx/plugins/jax/lax/_control_flow_utils.py", "    orig_builder_fresh = child_builder.fresh_name\n    setattr(\n        child_builder,\n        \"fresh_name\",", "    orig_builder_fresh = child_builder.fresh_name\n    setattr(\n        child_builder,\n        \"_fresh_name_unused\",", expect="prefix-both-allocators")
mutant("c03-subgraph-prefix-not-from-parent", "C03", "jax2onnx/plugins/jax/lax/_control_flow_utils.py", "    prefix_base = parent_ctx.fresh_name(prefix)", "    prefix_base = prefix", expect="prefix-both-allocators")
mutant("c03-plugin-writes-initializer-directly", "C03", "jax2onnx/plugins/equinox/eqx/nn/dropout.py", "    builder.inputs.append(value)", "    builder.inputs.append(value)\n    builder.initializers.append(value)", expect="writes-initializers")
mutant("c03-functions-not-attached", "C03", CAF, "    for fn_ir in ir_funcs:\n        functions_store[_function_store_identifier(fn_ir)] = fn_ir\n", "    for fn_ir in ir_funcs[:1]:\n        pass\n", expect="stores-every-function")
benign("c03-benign-fresh-via-local", "C03", "jax2onnx/plugins/jax/lax/tanh.py", "        result = ctx.builder.Tanh(x_val, _outputs=[desired_name])", "        out_name = desired_name\n        result = ctx.builder.Tanh(x_val, _outputs=[out_name])")

# ----------------------------------------------------------------------------- C08
PPF = "jax2onnx/converter/ir_postprocess.py"
mutant("c08-interface-shapes-loosened", "C08", PPF, "            name = _value_name(output)\n            if name and name in io_names:\n                continue\n", "            name = _value_name(output)\n", expect="shape-write")
mutant("c08-unknown-dim-becomes-one", "C08", PPF, "        else:\n            new_dims.append(None)\n            changed = True", "        else:\n            new_dims.append(1)\n            changed = True", expect="_unknown_shape_like")
mutant("c08-normalize-dim-constant", "C08", PPF, "    if isinstance(dim, str):\n        return ir.SymbolicDim(dim)\n    return None", "    if isinstance(dim, str):\n        return ir.SymbolicDim(dim)\n    return 1", expect="_normalize_dim")
mutant("c08-promotion-type-not-updated", "C08", PPF, "    value.const_value = promoted\n    value.type = ir.TensorType(ir.DataType.DOUBLE)", "    value.const_value = promoted", expect="const_value")
mutant("c08-shape-from-elsewhere", "C08", PPF, "            output.shape = unknown_shape\n", "            output.shape = ir.Shape(tuple(None for _ in unknown_shape.dims)) if force_rank_only else unknown_shape\n            output.shape = ir.Shape((1,))\n", expect="shape-write")
mutant("c08-refresh-backward-chain", "C08", OPT, "                for node in allowed_fwd:\n                    _refresh_elementwise_output_shape(node)", "                for node in allowed_nodes:\n                    _refresh_elementwise_output_shape(node)", expect="refresh-order")
mutant("c08-refresh-set-order", "C08", OPT, "            for node in nodes:\n                if node in elem_nodes:\n                    _refresh_elementwise_output_shape(node)\n\n            # Remove inverse transposes on outputs of the DAG.", "            for node in elem_nodes:\n                _refresh_elementwise_output_shape(node)\n\n            # Remove inverse transposes on outputs of the DAG.", expect="refresh-order")
benign("c08-benign-refresh-reversed-inline", "C08", OPT, "                for node in allowed_fwd:\n                    _refresh_elementwise_output_shape(node)", "                for node in reversed(allowed_nodes):\n                    _refresh_elementwise_output_shape(node)")
mutant("c08-refresh-copies-dtype-through-cast", "C08", OPT, "    if node.op_type in {\"Cast\", \"CastLike\", \"Not\"}:\n        # These ops can change dtype; keep existing dtype metadata untouched.\n        _copy_shape_only(outs[0], src)\n    else:\n        _copy_shape_dtype(outs[0], src)", "    _copy_shape_dtype(outs[0], src)", expect="R-C08d")
mutant("c08-unary-dataflow-set-gains-comparison", "C08", OPT, "UNARY_DATAFLOW_OPS: Set[str] = {\n    \"Gelu\",", "UNARY_DATAFLOW_OPS: Set[str] = {\n    \"IsNaN\",\n    \"Gelu\",", expect="R-C08d")
mutant("c08-shape-key-forgets-symbol-names", "C08", OPT, "            key.append(f\"repr:{repr(d)}\")", "            key.append(\"sym\" if getattr(d, \"value\", None) is not None else \"?\")", expect="R-C08e")
benign("c08-benign-shape-key-by-value-name", "C08", OPT, "            key.append(f\"repr:{repr(d)}\")", "            key.append(f\"sym:{getattr(d, 'value', None)!r}:{repr(d)}\")")
benign("c08-benign-refresh-not-excluded-explicitly", "C08", OPT, "    if node.op_type in {\"Cast\", \"CastLike\", \"Not\"}:\n        # These ops can change dtype", "    if node.op_type in {\"Cast\", \"CastLike\"}:\n        # These ops can change dtype")
mutant("c08-float16-declared-float32", "C08", "jax2onnx/converter/ir_context.py", "            and np.dtype(aval_dtype).itemsize\n            > np.dtype(self._default_float_dtype).itemsize", "            and aval_dtype != np.dtype(self._default_float_dtype)", expect="R-C08g")
mutant("c08-merge-failure-keeps-operand-shape", "C08", OPT, "        if len(candidate_shapes) > 1:\n            # The broadcast of the operands cannot be derived here (e.g. two\n            # unrelated symbolic dims).  One operand's shape is not the result's\n            # shape, so keep the annotation the output already had.\n            outs[0].shape = previous_shape\n        return", "        return", expect="R-C08f")
benign("c08-benign-narrow-only-float64", "C08", "jax2onnx/converter/ir_context.py", "            and np.dtype(aval_dtype).itemsize\n            > np.dtype(self._default_float_dtype).itemsize", "            and aval_dtype == np.float64")
mutant("c08-passthrough-table-gains-unrefreshed-op", "C08", OPT, "ALLOWED_ELEMWISE: Set[str] = {\n    \"Elu\",", "ALLOWED_ELEMWISE: Set[str] = {\n    \"Softplus\",\n    \"Elu\",", expect="R-C08h")
multi("c08-benign-passthrough-op-also-propagated", "C08", "benign", [(OPT, "ALLOWED_ELEMWISE: Set[str] = {\n    \"Elu\",", "ALLOWED_ELEMWISE: Set[str] = {\n    \"Softplus\",\n    \"Elu\","), (OPT, "UNARY_DATAFLOW_OPS: Set[str] = {\n    \"Gelu\",", "UNARY_DATAFLOW_OPS: Set[str] = {\n    \"Softplus\",\n    \"Gelu\",")])
benign("c08-benign-guard-split", "C08", PPF, "            name = _value_name(output)\n            if name and name in io_names:\n                continue\n", "            name = _value_name(output)\n            if name:\n                if name in io_names:\n                    continue\n")
mutant("c11-attribute-through-helper-mapping", "C11", "jax2onnx/plugins/flax/nnx/elu.py", 'attrs["alpha"] = float(alpha)', 'attrs["slope"] = float(alpha)', expect="slope")
mutant("c02-swish-operands-not-compared", "C02", OPT, "        if isinstance(sigmoid_input, ir.Value) and _same_value(\n            sigmoid_input, passthrough\n        ):", "        if isinstance(sigmoid_input, ir.Value):", expect="_same_value")
mutant("c17-integer-width-from-storage-size", "C17", OPT, "        return bool(dtype.is_signed()), int(dtype.bitwidth)\n", "        return bool(dtype.is_signed()), 8 * int(np.dtype(dtype.numpy()).itemsize)\n", expect="R-C17")
benign("c17-benign-integer-width-from-itemsize", "C17", OPT, "        return bool(dtype.is_signed()), int(dtype.bitwidth)\n", "        return bool(dtype.is_signed()), int(dtype.itemsize * 8)\n")
mutant("c17-range-last-off-by-one", "C17", OPT, "        last = start + ((limit - start - 1) // delta) * delta\n        return start, last", "        last = start + ((limit - start - 1) // delta) * delta - delta\n        return start, last", expect="range-closed-form")
mutant("c17-range-negative-delta-sign", "C17", OPT, "    last = start + ((start - limit - 1) // (-delta)) * delta\n    return last, start", "    last = start + ((start - limit - 1) // (-delta)) * delta\n    return start, last", expect="range-closed-form")
mutant("c17-cast-added-to-value-preserving-ops", "C17", OPT, '        "Expand",\n        "Flatten",', '        "Cast",\n        "Expand",\n        "Flatten",', expect="_INTEGER_VALUE_PRESERVING_OPS::Cast")
benign("c17-benign-range-conservative", "C17", OPT, "        return start, last", "        return start, max(last, start)")
mutant("c05-collision-universe-interface-only", "C05", UIF, "    return ir.convenience.create_value_mapping(graph, include_subgraphs=False)", "    return {v.name: v for v in (*graph.inputs, *graph.outputs) if getattr(v, 'name', None)}", expect="collision-universe")
mutant("c19-manual-positional-guard-off-by-one", "C19", "jax2onnx/plugins/jax/numpy/concatenate.py", "        if len(args) > 2:\n            dtype = args[2]", "        if len(args) > 3:\n            dtype = args[2]", expect="R-C19d")
mutant("c11-version-gated-dtype-partial", "C11", "jax2onnx/plugins/jax/numpy/arange.py", "            if result_dtype not in _OPSET27_NATIVE_RANGE_DTYPES\n            or use_native_range_dtype", "            if result_dtype != np.dtype(jnp.bfloat16)\n            or use_native_range_dtype", expect="R-C11d")
mutant("c07-function-counter-keyed-by-target", "C07", PS, '        counter_key = (namespace, base, "shared")', '        counter_key = (namespace, self.name, "shared")', expect="R-C07d")
benign("c07-benign-counter-key-order", "C07", PS, '        counter_key = (namespace, base, "shared")', '        counter_key = ("shared", base, namespace)')
mutant("c02-inverse-perm-helper-weakened", "C02", OPT, "    composed = [perm1[p] for p in perm2]\n    return composed == list(range(len(composed)))", "    return sorted(perm1) == sorted(perm2)", expect="R-C02h")
benign("c02-benign-inverse-perm-rewritten", "C02", OPT, "    composed = [perm1[p] for p in perm2]\n    return composed == list(range(len(composed)))", "    return all(perm1[p] == i for i, p in enumerate(perm2))")
mutant("c12-range-check-weakened-by-conjunction", "C12", CAF, "        if idx < 0 or idx >= upper_bound:", "        if idx < 0 or (idx >= upper_bound and upper_bound > 1):", expect="out-of-range")
mutant("c05-uniqueness-check-weakened-by-conjunction", "C05", UIF, "    if len(set(targets)) != len(targets):", "    if len(set(targets)) != len(targets) and output_names is not None:", expect="unique-targets")
mutant("c06-missing-jaxpr-check-weakened", "C06", LAXD + "while_loop.py", "        if cond_cj is None or body_cj is None:", "        if cond_cj is None and body_cj is None:", expect="missing-jaxprs")
mutant("c13-original-read-after-write", "C13", "jax2onnx/plugins/_patching.py", "            orig = getattr(tgt, s.attr, _MISSING)\n            owned = orig is not _MISSING and owns_attr(tgt, s.attr)\n            if isinstance(s, AssignSpec):\n                setattr(tgt, s.attr, s.value)", "            if isinstance(s, AssignSpec):\n                setattr(tgt, s.attr, s.value)\n            orig = getattr(tgt, s.attr, _MISSING)\n            owned = orig is not _MISSING and owns_attr(tgt, s.attr)\n            if isinstance(s, AssignSpec):\n                pass", expect="R-C13e")
mutant("c13-restore-writes-wrong-value", "C13", "jax2onnx/plugins/_patching.py", "                setattr(tgt, attr, orig)", "                setattr(tgt, attr, getattr(tgt, attr))", expect="restore-value")
mutant("c13-refcounted-restore-wrong-value", "C13", PS, '                    setattr(tgt, attr, st["orig"])', '                    setattr(tgt, attr, st.get("new"))', expect="restore-value")

# ----------------------------------------------------------------------------- C10
CJ = "jax2onnx/plugins/jax/core/custom_jvp_call.py"
R2 = "jax2onnx/plugins/jax/lax/remat2.py"
mutant("c10-custom-jvp-lowers-derivative-rule", "C10", CJ, 'closed = eqn.params.get("call_jaxpr")', 'closed = eqn.params.get("jvp_jaxpr_fun")', expect="primal-key")
mutant("c10-remat-output-binding-reversed", "C10", R2, "        for outer_var, inner_var in zip(eqn.outvars, inner_jaxpr.outvars):\n            ctx.bind_value_for_var(outer_var, ctx.get_value_for_var(inner_var))", "        for outer_var, inner_var in zip(eqn.outvars, inner_jaxpr.outvars):\n            ctx.bind_value_for_var(inner_var, ctx.get_value_for_var(outer_var))", expect="wiring")
mutant("c10-custom-vjp-outputs-bound-before-body", "C10", "jax2onnx/plugins/jax/core/custom_vjp_call.py", "        lower_jaxpr_eqns(ctx, inner_jaxpr, source=\"custom_vjp\")\n\n        for outer_var, inner_var in zip(eqn.outvars, inner_jaxpr.outvars):\n            ctx.bind_value_for_var(outer_var, ctx.get_value_for_var(inner_var))", "        for outer_var, inner_var in zip(eqn.outvars, inner_jaxpr.outvars):\n            ctx.bind_value_for_var(outer_var, ctx.get_value_for_var(inner_var))\n\n        lower_jaxpr_eqns(ctx, inner_jaxpr, source=\"custom_vjp\")", expect="wiring")
mutant("c10-amin-forwards-max-rule", "C10", "jax2onnx/plugins/jax/numpy/amin.py", "register_reduction_batch_rule(JnpAminPlugin._PRIM, jax.lax.reduce_min_p)", "register_reduction_batch_rule(JnpAminPlugin._PRIM, jax.lax.reduce_max_p)", expect="R-C10c")
multi("c10-batch-rule-rebind-whitelist", "C10", "mutant", [(RUF, "        (operand,), (bdim,) = batched_args, batch_dims\n", "        (operand,), (bdim,) = batched_args, batch_dims\n        passthrough = {name: params[name] for name in (\"dtype\", \"keepdims\") if name in params}\n"), (RUF, "                axes_is_tuple=axes_is_tuple,\n                **params,", "                axes_is_tuple=axes_is_tuple,\n                **passthrough,")], expect="R-C10d")
# R-C10e: axis-label evaluation of batching rules
mutant("c10-softmax-batch-rule-canonicalises-against-batched-rank", "C10", "jax2onnx/plugins/jax/nn/softmax.py", "    body_rank = x.ndim - 1 if x_bdim is not None else x.ndim\n", "    body_rank = x.ndim\n", expect="R-C10e")
mutant("c10-log-softmax-batch-rule-canonicalises-against-batched-rank", "C10", "jax2onnx/plugins/jax/nn/log_softmax.py", "    body_rank = x.ndim - 1\n", "    body_rank = x.ndim\n", expect="R-C10e")
mutant("c10-one-hot-batch-rule-axis-not-shifted", "C10", "jax2onnx/plugins/jax/nn/one_hot.py", "        axis=axis_int + 1,\n", "        axis=axis_int,\n", expect="R-C10e")
mutant("c10-argmax-batch-rule-negative-axis-not-canonicalised", "C10", "jax2onnx/plugins/jax/numpy/argmax.py", "    shifted_axes = tuple((int(ax) % slice_rank if slice_rank else 0) + 1 for ax in axes)\n", "    shifted_axes = tuple(int(ax) + 1 for ax in axes)\n", expect="R-C10e")
mutant("c10-glu-batch-rule-axis-not-shifted", "C10", "jax2onnx/plugins/jax/nn/glu.py", "    out = GluPlugin._PRIM.bind(x_front, axis=axis_norm + 1)", "    out = GluPlugin._PRIM.bind(x_front, axis=axis_norm)", expect="R-C10e")
mutant("c10-mean-batch-rule-axes-not-shifted", "C10", "jax2onnx/plugins/jax/numpy/mean.py", "        axes_full = tuple(ax + 1 for ax in axes_norm)", "        axes_full = axes_norm", expect="R-C10e")
mutant("c10-take-batch-rule-wrong-out-dim", "C10", "jax2onnx/plugins/jax/numpy/take.py", "    result = jax.vmap(_call_single, in_axes=in_axes)(arr, indices)\n    return result, 0", "    result = jax.vmap(_call_single, in_axes=in_axes)(arr, indices)\n    return result, 1", expect="R-C10e")
mutant("c10-sort-batch-rule-axis-not-shifted", "C10", "jax2onnx/plugins/jax/numpy/sort.py", "    axis_full = axis_norm + 1", "    axis_full = axis_norm", expect="R-C10e")
mutant("c10-stack-batch-rule-axis-not-shifted", "C10", "jax2onnx/plugins/jax/numpy/stack.py", "    stack_axis = axis_norm + 1", "    stack_axis = axis_norm", expect="R-C10e")
mutant("c10-transpose-batch-rule-perm-not-shifted", "C10", "jax2onnx/plugins/jax/numpy/transpose.py", "    perm = (0,) + tuple(int(ax) + 1 for ax in permutation)", "    perm = (0,) + tuple(int(ax) for ax in permutation)", expect="R-C10e")
mutant("c10-cumsum-batch-rule-none-uses-last-axis", "C10", "jax2onnx/plugins/jax/numpy/cumsum.py", "        flat = jnp.reshape(operand, (batched_shape[0], -1))\n        params[\"axis\"] = 1\n        out = JnpCumSumPlugin._PRIM.bind(flat, **params)", "        flat = operand\n        params[\"axis\"] = operand.ndim - 1\n        out = JnpCumSumPlugin._PRIM.bind(flat, **params)", expect="R-C10e")
mutant("c10-logsumexp-batch-rule-vmaps-wrong-axis", "C10", "jax2onnx/plugins/jax/nn/logsumexp.py", "    operand = batching.bdim_at_front(operand, bdim, axis_size)\n    axis_arg", "    axis_arg", expect="R-C10e")
mutant("c10-unstack-batch-rule-reports-wrong-dims", "C10", "jax2onnx/plugins/jax/numpy/unstack.py", "    return outs, tuple(0 for _ in outs)", "    return outs, tuple(1 for _ in outs)", expect="R-C10e")
mutant("c10-diagonal-batch-rule-skips-front-move", "C10", "jax2onnx/plugins/jax/numpy/diagonal.py", "    x_front = batching.bdim_at_front(x, int(bdim), batch_size)", "    x_front = x", expect="R-C10e")
mutant("c10-layer-norm-batch-rule-leaves-batch-axis", "C10", "jax2onnx/plugins/equinox/eqx/nn/layer_norm.py", "    if x_bdim is not None and x_bdim != 0:\n        x = jnp.moveaxis(x, x_bdim, 0)\n        x_bdim = 0\n", "", expect="R-C10")
mutant("c10-linear-batch-rule-leaves-batch-axis", "C10", "jax2onnx/plugins/equinox/eqx/nn/linear.py", "    if x_bdim is not None and x_bdim != 0:\n        x = jnp.moveaxis(x, x_bdim, 0)\n        x_bdim = 0\n", "", expect="R-C10")
mutant("c10-pool-batch-rule-reports-moved-axis-at-old-place", "C10", "jax2onnx/plugins/equinox/eqx/nn/pool.py", "    if x_bdim != 0:\n        x = jnp.moveaxis(x, x_bdim, 0)\n    out = PoolPlugin._PRIM.bind(\n        x,\n        op=op,\n        kernel_size=kernel_size,\n        strides=strides,\n        padding=padding,\n    )\n    return out, 0", "    if x_bdim != 0:\n        x = jnp.moveaxis(x, x_bdim, 0)\n    out = PoolPlugin._PRIM.bind(\n        x,\n        op=op,\n        kernel_size=kernel_size,\n        strides=strides,\n        padding=padding,\n    )\n    return out, x_bdim", expect="R-C10e")
mutant("c10-conv-batch-rule-forgets-to-move-back", "C10", "jax2onnx/plugins/equinox/eqx/nn/conv.py", "    if x_bdim is not None and x_bdim != 0:\n        out = jnp.moveaxis(out, 0, x_bdim)\n", "", expect="R-C10e")
mutant("c10-dot-batch-rule-generic-broadcast", "C10", "jax2onnx/plugins/jax/numpy/dot.py", "    out = jax.vmap(lambda a, b: _dot_impl(a, b, **params), in_axes=tuple(dims))(*args)\n    return out, 0\n", "    from jax2onnx.plugins.jax._batching_utils import broadcast_batcher_compat\n    return broadcast_batcher_compat(JnpDotPlugin._PRIM, args, dims, **params)\n", expect="R-C10f")
mutant("c10-matmul-batch-rule-always-generic", "C10", "jax2onnx/plugins/jax/numpy/matmul.py", "    if all(\n        (d is None or d == 0) and np.ndim(x) - (0 if d is None else 1) >= 2\n        for x, d in zip(args, dims)\n    ):\n        return broadcast_batcher_compat", "    if True:\n        return broadcast_batcher_compat", expect="R-C10f")
mutant("c10-standardize-axis-not-shifted", "C10", "jax2onnx/plugins/jax/nn/standardize.py", "    shifted = tuple((int(a) % example_rank if example_rank else 0) + 1 for a in example_axes)", "    shifted = tuple(int(a) for a in example_axes)", expect="R-C10e")
mutant("c10-softmax-registered-with-generic-elementwise-batcher", "C10", "jax2onnx/plugins/jax/nn/softmax.py", "batching.primitive_batchers[SoftmaxPlugin._PRIM] = _softmax_batch_rule\n", "from jax2onnx.plugins.jax.nn._builder_utils import register_unary_elementwise_batch_rule\nregister_unary_elementwise_batch_rule(SoftmaxPlugin._PRIM)\n", expect="R-C10f")
benign("c10-benign-linear-batch-rule-front-via-helper", "C10", "jax2onnx/plugins/equinox/eqx/nn/linear.py", "    if x_bdim is not None and x_bdim != 0:\n        x = jnp.moveaxis(x, x_bdim, 0)\n        x_bdim = 0\n", "    if x_bdim is not None:\n        x = jnp.moveaxis(x, x_bdim, 0)\n        x_bdim = 0\n")
mutant("c10-broadcast-batcher-appends-missing-axes", "C10", "jax2onnx/plugins/jax/_batching_utils.py", "    return lax.expand_dims(x, tuple(range(1, 1 + ndim - np.ndim(x))))", "    return lax.expand_dims(x, tuple(range(np.ndim(x), ndim)))", expect="R-C10e")
mutant("c10-broadcast-batcher-direct-bind-ignores-dim-mismatch", "C10", "jax2onnx/plugins/jax/_batching_utils.py", "        definitely_equal_shape(shape, x.shape) and d == dim\n", "        definitely_equal_shape(shape, x.shape)\n", expect="R-C10e")
mutant("c10-broadcast-batcher-returns-wrong-dim", "C10", "jax2onnx/plugins/jax/_batching_utils.py", "    return (out, (0,) * len(out)) if prim.multiple_results else (out, 0)", "    return (out, (0,) * len(out)) if prim.multiple_results else (out, dim)", expect="R-C10e")
benign("c10-benign-broadcast-batcher-expand-dims-list", "C10", "jax2onnx/plugins/jax/_batching_utils.py", "    return lax.expand_dims(x, tuple(range(1, 1 + ndim - np.ndim(x))))", "    missing = ndim - np.ndim(x)\n    return lax.expand_dims(x, tuple(range(1, missing + 1)))")
benign("c10-benign-glu-batch-rule-rank-via-shape", "C10", "jax2onnx/plugins/jax/nn/glu.py", "    slice_rank = x_front.ndim - 1", "    slice_rank = len(x_front.shape) - 1")
benign("c10-benign-sort-batch-rule-explicit-canonicalisation", "C10", "jax2onnx/plugins/jax/numpy/sort.py", "        axis_norm = axis_int % slice_rank\n", "        axis_norm = axis_int if axis_int >= 0 else axis_int + slice_rank\n")
benign("c10-benign-one-hot-batch-rule-unconditional-move", "C10", "jax2onnx/plugins/jax/nn/one_hot.py", "    if bd != 0:\n        x = jnp.moveaxis(x, bd, 0)\n", "    x = jnp.moveaxis(x, bd, 0)\n")
benign("c10-benign-argmax-batch-rule-helper-variable", "C10", "jax2onnx/plugins/jax/numpy/argmax.py", "    shifted_axes = tuple((int(ax) % slice_rank if slice_rank else 0) + 1 for ax in axes)\n", "    canon_axes = [int(ax) % slice_rank if slice_rank else 0 for ax in axes]\n    shifted_axes = tuple(c + 1 for c in canon_axes)\n")
benign("c10-benign-remat-loop-names", "C10", R2, "        for outer_var, inner_var in zip(eqn.outvars, inner_jaxpr.outvars):\n            ctx.bind_value_for_var(outer_var, ctx.get_value_for_var(inner_var))", "        for dst, produced in zip(eqn.outvars, inner_jaxpr.outvars):\n            ctx.bind_value_for_var(dst, ctx.get_value_for_var(produced))")
