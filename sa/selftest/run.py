"""Checker self-test: apply small source edits to a scratch copy of /repo/jax2onnx and assert that
mutants are reported (exit 1, naming the construct) and benign refactors stay silent (exit 0).

    /venv/bin/python -m sa.selftest.run [--prop C11] [--jobs 16] [--only id]
"""
from __future__ import annotations

import argparse
import concurrent.futures as cf
import json
import os
import shutil
import subprocess
import sys
import tempfile
import time

from .corpus import CASES

VERIF = os.path.dirname(os.path.dirname(os.path.dirname(os.path.abspath(__file__))))
REPO = os.environ.get("VERIF_REPO", "/repo")


def run_case(case: dict) -> dict:
    t0 = time.time()
    tmp = tempfile.mkdtemp(prefix="verif-scratch-")
    try:
        shutil.copytree(os.path.join(REPO, "jax2onnx"), os.path.join(tmp, "jax2onnx"), ignore=shutil.ignore_patterns("__pycache__"))
        for ed in case["edits"]:
            path = os.path.join(tmp, ed["file"])
            s = open(path).read()
            if s.count(ed["find"]) < 1:
                return {"id": case["id"], "status": "STALE", "detail": f"text to edit not found in {ed['file']}", "wall": 0}
            s = s.replace(ed["find"], ed["replace"], ed.get("count", 1))
            open(path, "w").write(s)
            # the variant must still compile
            subprocess.run([sys.executable, "-m", "py_compile", path], check=True, capture_output=True)
        env = dict(os.environ, VERIF_REPO=tmp, VERIF_OUT_DIR=os.path.join(tmp, "out"))
        p = subprocess.run([sys.executable, "-m", "sa.cli", "check", case["prop"], "--tier", "quick"], cwd=VERIF, env=env, capture_output=True, text=True)
        out = p.stdout + p.stderr
        want_fire = case["kind"] == "mutant"
        ok = False
        detail = ""
        if want_fire:
            if p.returncode == 1 and "VIOLATION property=" + case["prop"] in out:
                exp = case.get("expect", "")
                if exp and exp not in out:
                    detail = f"fired but report does not name '{exp}'"
                else:
                    ok = True
            else:
                detail = f"exit {p.returncode}, no violation reported"
        else:
            ok = p.returncode == 0
            if not ok:
                detail = f"exit {p.returncode} on a behaviour-preserving edit"
        return {"id": case["id"], "prop": case["prop"], "kind": case["kind"], "status": "PASS" if ok else "FAIL", "detail": detail,
                "tail": "" if ok else out[-1500:], "wall": round(time.time() - t0, 1)}
    except subprocess.CalledProcessError as e:
        return {"id": case["id"], "status": "STALE", "detail": f"variant does not compile: {e.stderr[-300:] if e.stderr else e}", "wall": 0}
    finally:
        shutil.rmtree(tmp, ignore_errors=True)


def main() -> int:
    ap = argparse.ArgumentParser()
    ap.add_argument("--prop")
    ap.add_argument("--only")
    ap.add_argument("--jobs", type=int, default=min(16, os.cpu_count() or 4))
    ap.add_argument("--json")
    ns = ap.parse_args()
    cases = [c for c in CASES if (not ns.prop or c["prop"] == ns.prop.upper()) and (not ns.only or ns.only in c["id"])]
    results = []
    with cf.ThreadPoolExecutor(ns.jobs) as ex:
        for r in ex.map(run_case, cases):
            results.append(r)
            print(f"{r['status']:5} {r['id']:60} {r.get('wall', 0):5}s {r['detail']}")
            if r["status"] == "FAIL" and r.get("tail"):
                print("      | " + r["tail"].replace("\n", "\n      | ")[-1200:])
    bad = [r for r in results if r["status"] != "PASS"]
    print(f"self-test: {len(results) - len(bad)}/{len(results)} pass; {sum(1 for r in results if r['status']=='STALE')} stale")
    if ns.json:
        json.dump(results, open(ns.json, "w"), indent=1)
    return 1 if bad else 0


if __name__ == "__main__":
    sys.exit(main())
