"""Path facts on the target opset: which opset versions can reach a program point.

A fact is a frozenset of admissible opset numbers inside a universe 1..N.  Facts come from
(a) enclosing `if` / conditional-expression / short-circuit tests, (b) preceding sibling
abort-guards (`if P: return|raise|continue|break`, `assert P`), (c) boolean flag variables
whose definition mentions the opset, (d) predicate helpers whose return value is an opset
comparison, and (e) for private helpers, the union of the facts at all their call sites.
Anything the analysis does not understand leaves the fact unconstrained (sound: more
versions to check, never fewer).
"""
from __future__ import annotations

import ast
from typing import Dict, FrozenSet, List, Optional, Set, Tuple

from .callgraph import CallGraph
from .cfg import aborts
from .flow import defuse
from .index import FuncInfo, Index, Module, call_name, dotted, fold_const, is_const, parents

OPSET_ATTRS = {"opset", "opset_version"}
OPSET_PARAM_NAMES = {"opset", "opset_version", "target_opset"}


class OpsetFacts:
    def __init__(self, idx: Index, cg: CallGraph, newest: int):
        self.idx = idx
        self.cg = cg
        self.U: FrozenSet[int] = frozenset(range(1, newest + 1))
        self._getter_cache: Dict[int, bool] = {}
        self._entry_cache: Dict[int, FrozenSet[int]] = {}

    # ------------------------------------------------------------------ opset expressions
    def is_opset_expr(self, e: ast.AST, fi: Optional[FuncInfo], depth: int = 0, _seen: Optional[Set[str]] = None) -> bool:
        if depth > 4:
            return False
        if isinstance(e, ast.Attribute):
            return e.attr in OPSET_ATTRS
        if isinstance(e, ast.Call):
            cn = call_name(e) or ""
            if cn == "getattr" and len(e.args) >= 2 and isinstance(e.args[1], ast.Constant) and e.args[1].value in OPSET_ATTRS:
                return True
            if cn == "int" and len(e.args) == 1:
                return self.is_opset_expr(e.args[0], fi, depth, _seen)
            if cn.endswith(".get") and "opset_imports" in cn or (cn.endswith(".get") and e.args and isinstance(e.args[0], ast.Constant) and e.args[0].value == "" and self._imports_like(e.func.value, fi)):  # type: ignore[attr-defined]
                return True
            if fi is not None and cn:
                g = self.idx.resolve_func(fi.module, cn, cls=fi.cls, scope=fi)
                if g is not None:
                    return self._is_getter(g, depth + 1)
            return False
        if isinstance(e, ast.BoolOp) and isinstance(e.op, ast.Or):
            flags = [self.is_opset_expr(v, fi, depth, _seen) for v in e.values]
            others = [isinstance(v, ast.Constant) for v in e.values]
            return any(flags) and all(f or o for f, o in zip(flags, others))
        if isinstance(e, ast.IfExp):
            return self.is_opset_expr(e.body, fi, depth, _seen) or self.is_opset_expr(e.orelse, fi, depth, _seen)
        if isinstance(e, ast.Name):
            _seen = _seen or set()
            if e.id in _seen:
                return False
            _seen = _seen | {e.id}
            cur = fi
            while cur is not None:
                du = defuse(cur.node)
                if e.id in du.defs:
                    vals = du.values(e.id)
                    if not vals:
                        return du.is_param(e.id) and e.id in OPSET_PARAM_NAMES
                    flags = [self.is_opset_expr(v, cur, depth + 1, _seen) for v in vals]
                    consts = [isinstance(v, ast.Constant) for v in vals]
                    return any(flags) and all(f or c for f, c in zip(flags, consts))
                cur = cur.parent_func
            return False
        return False

    def _imports_like(self, e: ast.AST, fi: Optional[FuncInfo]) -> bool:
        d = dotted(e) or ""
        if "opset_imports" in d or d.endswith("imports"):
            return True
        if isinstance(e, ast.Name) and fi is not None:
            for v in defuse(fi.node).values(e.id):
                if "opset_imports" in ast.dump(v):
                    return True
        return False

    def _is_getter(self, g: FuncInfo, depth: int) -> bool:
        key = id(g.node)
        if key in self._getter_cache:
            return self._getter_cache[key]
        self._getter_cache[key] = False
        rets = [n for n in ast.walk(g.node) if isinstance(n, ast.Return) and n.value is not None and self.idx.modules[g.module.name].func_containing(n) is g]
        flags = [self.is_opset_expr(r.value, g, depth) for r in rets]
        consts = [isinstance(r.value, ast.Constant) for r in rets]
        ok = bool(rets) and any(flags) and all(f or c for f, c in zip(flags, consts))
        self._getter_cache[key] = ok
        return ok

    # ------------------------------------------------------------------ conditions
    def cond_set(self, e: ast.AST, want: bool, fi: Optional[FuncInfo], depth: int = 0) -> Optional[FrozenSet[int]]:
        """Opset versions under which `e` can evaluate to `want`; None = unconstrained."""
        if depth > 4:
            return None
        if isinstance(e, ast.UnaryOp) and isinstance(e.op, ast.Not):
            return self.cond_set(e.operand, not want, fi, depth)
        if isinstance(e, ast.BoolOp):
            parts = [self.cond_set(v, want, fi, depth) for v in e.values]
            conj = isinstance(e.op, ast.And) == want  # (and,True) / (or,False) -> all parts hold
            if conj:
                out: Optional[FrozenSet[int]] = None
                for p in parts:
                    if p is not None:
                        out = p if out is None else (out & p)
                return out
            if any(p is None for p in parts):
                return None
            u: FrozenSet[int] = frozenset()
            for p in parts:
                u = u | p  # type: ignore[operator]
            return u
        if isinstance(e, ast.Compare) and len(e.ops) == 1:
            l, r, op = e.left, e.comparators[0], e.ops[0]
            env = fi.module.class_env(fi.cls) if fi is not None else {}
            lc, rc = fold_const(l, env), fold_const(r, env)
            if is_const(rc) and isinstance(rc, int) and not isinstance(rc, bool) and self.is_opset_expr(l, fi):
                return self._cmp(op, rc, want, flipped=False)
            if is_const(lc) and isinstance(lc, int) and not isinstance(lc, bool) and self.is_opset_expr(r, fi):
                return self._cmp(op, lc, want, flipped=True)
            if isinstance(op, (ast.In, ast.NotIn)) and self.is_opset_expr(l, fi) and is_const(rc) and isinstance(rc, (tuple, list, frozenset)):
                s = frozenset(x for x in rc if isinstance(x, int)) & self.U
                return s if (isinstance(op, ast.In) == want) else (self.U - s)
            return None
        if isinstance(e, ast.Name) and fi is not None:
            cur: Optional[FuncInfo] = fi
            while cur is not None:
                du = defuse(cur.node)
                if e.id in du.defs:
                    if du.is_param(e.id):
                        return None
                    vals = du.values(e.id)
                    parts = [self.cond_set(v, want, cur, depth + 1) for v in vals]
                    if not parts or any(p is None for p in parts):
                        return None
                    u = frozenset()
                    for p in parts:
                        u = u | p  # type: ignore[operator]
                    return u
                cur = cur.parent_func
            return None
        if isinstance(e, ast.Call) and fi is not None:
            cn = call_name(e) or ""
            if cn == "bool" and len(e.args) == 1:
                return self.cond_set(e.args[0], want, fi, depth)
            g = self.idx.resolve_func(fi.module, cn, cls=fi.cls, scope=fi) if cn else None
            if g is not None:
                rets = [n for n in ast.walk(g.node) if isinstance(n, ast.Return) and g.module.func_containing(n) is g]
                if not rets or any(r.value is None for r in rets):
                    return None
                u = frozenset()
                for r in rets:
                    p = self.cond_set(r.value, want, g, depth + 1)  # type: ignore[arg-type]
                    if p is None:
                        # a constant-returning branch only restricts if it contradicts `want`
                        if isinstance(r.value, ast.Constant) and isinstance(r.value.value, bool):
                            if r.value.value != want:
                                continue
                        return None
                    p = p & self.path_fact(r, g)
                    u = u | p
                return u
            return None
        if isinstance(e, ast.NamedExpr):
            return self.cond_set(e.value, want, fi, depth)
        return None

    def _cmp(self, op: ast.cmpop, k: int, want: bool, flipped: bool) -> Optional[FrozenSet[int]]:
        # opset <op> k   (flipped: k <op> opset)
        def test(v: int) -> Optional[bool]:
            a, b = (k, v) if flipped else (v, k)
            if isinstance(op, ast.GtE):
                return a >= b
            if isinstance(op, ast.Gt):
                return a > b
            if isinstance(op, ast.LtE):
                return a <= b
            if isinstance(op, ast.Lt):
                return a < b
            if isinstance(op, ast.Eq):
                return a == b
            if isinstance(op, ast.NotEq):
                return a != b
            return None
        if test(1) is None:
            return None
        return frozenset(v for v in self.U if test(v) == want)

    # ------------------------------------------------------------------ path facts
    def path_fact(self, node: ast.AST, fi: Optional[FuncInfo], explain: Optional[List[str]] = None) -> FrozenSet[int]:
        fact = self.U
        child = node
        for parent in parents(node):
            if isinstance(parent, (ast.Lambda, ast.ClassDef, ast.Module)):
                break
            c: Optional[FrozenSet[int]] = None
            if isinstance(parent, (ast.If, ast.IfExp)):
                in_body = (child in parent.body) if isinstance(parent, ast.If) else (child is parent.body)
                in_else = (child in parent.orelse) if isinstance(parent, ast.If) else (child is parent.orelse)
                if in_body:
                    c = self.cond_set(parent.test, True, fi)
                elif in_else:
                    c = self.cond_set(parent.test, False, fi)
                if c is not None and explain is not None:
                    explain.append(f"{'in' if in_body else 'else of'} `if {_src(parent.test)}` (line {parent.lineno})")
            elif isinstance(parent, ast.While) and child in parent.body:
                c = self.cond_set(parent.test, True, fi)
            elif isinstance(parent, ast.BoolOp) and child in parent.values:
                i = parent.values.index(child)  # type: ignore[arg-type]
                for v in parent.values[:i]:
                    cc = self.cond_set(v, isinstance(parent.op, ast.And), fi)
                    if cc is not None:
                        fact = fact & cc
                        if explain is not None:
                            explain.append(f"after `{_src(v)}` in short-circuit (line {v.lineno})")
            if c is not None:
                fact = fact & c
            # preceding sibling guards
            for fld in ("body", "orelse", "finalbody"):
                blk = getattr(parent, fld, None)
                if isinstance(blk, list) and child in blk:
                    fact = fact & self._sibling_guards(blk, blk.index(child), fi, explain)
            if isinstance(parent, ast.ExceptHandler) and child in parent.body:
                fact = fact & self._sibling_guards(parent.body, parent.body.index(child), fi, explain)
            if isinstance(parent, (ast.FunctionDef, ast.AsyncFunctionDef)):
                break
            child = parent
        return fact

    def _sibling_guards(self, blk: List[ast.stmt], upto: int, fi: Optional[FuncInfo], explain: Optional[List[str]]) -> FrozenSet[int]:
        fact = self.U
        for st in blk[:upto]:
            c: Optional[FrozenSet[int]] = None
            if isinstance(st, ast.If):
                ab_body, ab_else = aborts(st.body), (aborts(st.orelse) if st.orelse else False)
                if ab_body and not ab_else:
                    c = self.cond_set(st.test, False, fi)
                elif ab_else and not ab_body:
                    c = self.cond_set(st.test, True, fi)
                elif ab_body and ab_else:
                    c = frozenset()
                if c is not None and explain is not None:
                    explain.append(f"past abort-guard `if {_src(st.test)}` (line {st.lineno})")
            elif isinstance(st, ast.Assert):
                c = self.cond_set(st.test, True, fi)
            if c is not None:
                fact = fact & c
        return fact

    def entry_fact(self, fi: FuncInfo, depth: int = 3, explain: Optional[List[str]] = None) -> FrozenSet[int]:
        """Union of the facts at all call sites of a helper that is only ever *called* (never passed
        around as a value) — otherwise unconstrained."""
        key = id(fi.node)
        if key in self._entry_cache:
            return self._entry_cache[key]
        self._entry_cache[key] = self.U  # recursion guard
        out = self.U
        callers = self.cg.callers_of(fi)
        if depth > 0 and callers and not self._escapes(fi):
            u: FrozenSet[int] = frozenset()
            for cs in callers:
                f = self.path_fact(cs.call, cs.caller)
                if cs.caller is not None:
                    f = f & self.entry_fact(cs.caller, depth - 1)
                u = u | f
            out = u
            if explain is not None and out != self.U:
                explain.append(f"all {len(callers)} call sites of {fi.qualname} are guarded")
        self._entry_cache[key] = out
        return out

    def _escapes(self, fi: FuncInfo) -> bool:
        """Is the function referenced other than as the callee of a call (callback, registry, decorator)?"""
        name = fi.name
        if not name.startswith("_") and fi.parent_func is None:
            # public module-level / method names can be called from anywhere (plugins' lower, API)
            return True
        if getattr(fi.node, "decorator_list", None):
            decos = {dotted(d) for d in fi.node.decorator_list}  # type: ignore[attr-defined]
            if decos - {"staticmethod", "classmethod"}:
                return True
        for m in self.idx.modules.values():
            if name not in m.src:
                continue
            for n in ast.walk(m.tree):
                ref = None
                if isinstance(n, ast.Name) and n.id == name and isinstance(n.ctx, ast.Load):
                    ref = n
                elif isinstance(n, ast.Attribute) and n.attr == name and isinstance(n.ctx, ast.Load):
                    ref = n
                if ref is None:
                    continue
                p = getattr(ref, "parent", None)
                if isinstance(p, ast.Call) and p.func is ref:
                    continue
                return True
        return False

    def site_fact(self, node: ast.AST, fi: Optional[FuncInfo], explain: Optional[List[str]] = None) -> FrozenSet[int]:
        f = self.path_fact(node, fi, explain)
        return f

    def site_fact_deep(self, node: ast.AST, fi: Optional[FuncInfo], explain: Optional[List[str]] = None) -> FrozenSet[int]:
        f = self.path_fact(node, fi, explain)
        if fi is not None:
            f = f & self.entry_fact(fi, explain=explain)
        return f


def _src(e: ast.AST) -> str:
    try:
        s = ast.unparse(e)
    except Exception:
        s = "<expr>"
    return s if len(s) < 90 else s[:87] + "..."
