"""Command line: python -m sa.cli check <ID> [--tier quick|thorough] | replay <file> | all"""
from __future__ import annotations

import argparse
import importlib
import json
import os
import sys
import traceback

from .index import AnalysisError, get_index
from .report import Results, finish

PROPS = [f"C{i:02d}" for i in range(1, 20)]


def run_check(prop: str, tier: str) -> int:
    seed = int(os.environ.get("VERIF_SEED", "0") or 0)
    res = Results(prop, tier)
    try:
        mod = importlib.import_module(f"sa.rules.{prop.lower()}")
        idx = get_index()
        res.analysed["files_parsed"] = len(idx.modules)
        res.analysed["source_digest"] = idx.digest[:16]
        mod.run(res, idx, tier)
        return finish(res, seed=seed)
    except AnalysisError as e:
        print(f"ANALYSIS-ERROR property={prop} {e}")
        _error_evidence(res, seed, str(e))
        return 2
    except Exception:  # a traceback is a broken analysis, never a violation
        tb = traceback.format_exc()
        print(f"ANALYSIS-ERROR property={prop} internal error\n{tb}")
        _error_evidence(res, seed, tb.splitlines()[-1])
        return 2


def _error_evidence(res: Results, seed: int, msg: str) -> None:
    res.rules.setdefault("analysis", "analysis could not run")
    res.floors.clear()
    res.controls.clear()
    res.analysed["analysis_error"] = msg
    try:
        finish(res, seed=seed)
    except Exception:
        pass


def main(argv=None) -> int:
    ap = argparse.ArgumentParser(prog="sa.cli")
    sub = ap.add_subparsers(dest="cmd", required=True)
    c = sub.add_parser("check")
    c.add_argument("prop")
    c.add_argument("--tier", default=os.environ.get("VERIF_TIER", "quick"), choices=["quick", "thorough"])
    r = sub.add_parser("replay")
    r.add_argument("path")
    a = sub.add_parser("all")
    a.add_argument("--tier", default="quick", choices=["quick", "thorough"])
    ns = ap.parse_args(argv)
    if ns.cmd == "check":
        return run_check(ns.prop.upper(), ns.tier)
    if ns.cmd == "all":
        worst = 0
        for p in PROPS:
            if os.path.exists(os.path.join(os.path.dirname(__file__), "rules", f"{p.lower()}.py")):
                worst = max(worst, run_check(p, ns.tier))
        return worst
    if ns.cmd == "replay":
        with open(ns.path) as fh:
            rep = json.load(fh)
        prop = rep["property"]
        # re-evaluate the property on the current tree and report whether this construct still violates
        rc = run_check(prop, "quick")
        ev = json.load(open(os.path.join(os.path.dirname(os.path.dirname(__file__)), "evidence", f"{prop}.json")))
        still = [s for s in ev["coverage"]["samples"] if s.get("status") == "VIOLATION" and s.get("rule") == rep["rule"] and s.get("key") == rep["key"]]
        if still:
            print(f"REPLAY: still violated: {rep['rule']} {rep['key']} at {still[0]['site']}: {still[0].get('detail','')}")
            print(f"VIOLATION property={prop} replay={ns.path}")
            return 1
        print(f"REPLAY: construct {rep['rule']} {rep['key']} no longer violates")
        return 0 if rc != 2 else 2
    return 2


if __name__ == "__main__":
    sys.exit(main())
