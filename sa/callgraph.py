"""Name-resolved call sites: which package function does each call reach, and the reverse map."""
from __future__ import annotations

import ast
from dataclasses import dataclass
from typing import Dict, Iterator, List, Optional, Tuple

from .index import FuncInfo, Index, Module, call_name, dotted


@dataclass
class CallSite:
    module: Module
    call: ast.Call
    caller: Optional[FuncInfo]
    callee: FuncInfo
    bound_self: bool  # call through self./cls./instance: first parameter is implicit

    @property
    def site(self) -> str:
        return f"{self.module.rel}:{self.call.lineno}"


class CallGraph:
    def __init__(self, idx: Index, *, include_examples: bool = False):
        self.idx = idx
        self.callers: Dict[int, List[CallSite]] = {}   # id(callee.node) -> call sites
        self.callees: Dict[int, List[CallSite]] = {}   # id(caller.node) -> call sites
        self.n_calls = 0
        self.n_resolved = 0
        for m in idx.product_modules(include_examples=include_examples):
            for node in ast.walk(m.tree):
                if not isinstance(node, ast.Call):
                    continue
                self.n_calls += 1
                name = call_name(node)
                if not name:
                    continue
                caller = m.func_containing(node)
                cls = caller.cls if caller is not None else None
                callee = idx.resolve_func(m, name, cls=cls, scope=caller)
                if callee is None:
                    continue
                self.n_resolved += 1
                head = name.split(".")[0]
                bound = False
                if callee.cls is not None and callee.parent_func is None:
                    decos = {dotted(d) for d in callee.node.decorator_list}  # type: ignore[attr-defined]
                    if "staticmethod" in decos:
                        bound = False
                    elif head in ("self", "cls"):
                        bound = True
                    elif "classmethod" in decos:
                        bound = True  # Class.method(...) on a classmethod binds cls
                    else:
                        bound = False  # Class.method(obj, ...) explicit self
                cs = CallSite(m, node, caller, callee, bound)
                self.callers.setdefault(id(callee.node), []).append(cs)
                if caller is not None:
                    self.callees.setdefault(id(caller.node), []).append(cs)

    def callers_of(self, f: FuncInfo) -> List[CallSite]:
        return self.callers.get(id(f.node), [])

    def callees_of(self, f: FuncInfo) -> List[CallSite]:
        return self.callees.get(id(f.node), [])

    def reachable_from(self, f: FuncInfo, depth: int = 4) -> List[FuncInfo]:
        seen = {id(f.node): f}
        frontier = [f]
        for _ in range(depth):
            nxt = []
            for g in frontier:
                for cs in self.callees_of(g):
                    if id(cs.callee.node) not in seen:
                        seen[id(cs.callee.node)] = cs.callee
                        nxt.append(cs.callee)
                # nested defs are part of the function's behaviour
                for nf in g.nested().values():
                    if id(nf.node) not in seen:
                        seen[id(nf.node)] = nf
                        nxt.append(nf)
            frontier = nxt
        return list(seen.values())


def param_names(f: FuncInfo) -> List[str]:
    a = f.node.args  # type: ignore[attr-defined]
    return [x.arg for x in a.posonlyargs + a.args]


def arg_for_param(cs: CallSite, pname: str) -> Tuple[str, Optional[ast.expr]]:
    """The argument expression a call site passes for callee parameter `pname`.
    Returns (how, expr): how in {'pos','kw','default','missing','star'}."""
    a = cs.callee.node.args  # type: ignore[attr-defined]
    pos = [x.arg for x in a.posonlyargs + a.args]
    for kw in cs.call.keywords:
        if kw.arg == pname:
            return "kw", kw.value
    if any(kw.arg is None for kw in cs.call.keywords):
        star_kw = True
    else:
        star_kw = False
    if pname in pos:
        i = pos.index(pname)
        if cs.bound_self:
            i -= 1
        if i >= 0:
            if any(isinstance(x, ast.Starred) for x in cs.call.args[: i + 1]):
                return "star", None
            if i < len(cs.call.args):
                return "pos", cs.call.args[i]
        # default
        defaults = a.defaults
        j = pos.index(pname) - (len(pos) - len(defaults))
        if j >= 0 and not star_kw:
            return "default", defaults[j]
    for x, d in zip(a.kwonlyargs, a.kw_defaults):
        if x.arg == pname and d is not None and not star_kw:
            return "default", d
    if star_kw:
        return "star", None
    return "missing", None


_CG: Dict[bool, CallGraph] = {}


def get_callgraph(idx: Index, include_examples: bool = False) -> CallGraph:
    cg = _CG.get(include_examples)
    if cg is None:
        cg = CallGraph(idx, include_examples=include_examples)
        _CG[include_examples] = cg
    return cg
