"""Flow-insensitive def-use inside one function."""
from __future__ import annotations

import ast
from dataclasses import dataclass
from typing import Dict, Iterable, Iterator, List, Optional, Set, Tuple

from .index import walk_no_nested, dotted


@dataclass
class Def:
    name: str
    value: Optional[ast.expr]   # expression the name is (partly) computed from
    stmt: ast.AST
    kind: str                   # assign | unpack | for | with | aug | walrus | param | comp
    index: Optional[int] = None  # element index for tuple unpacking


def _targets(t: ast.expr) -> Iterator[Tuple[str, Optional[int]]]:
    if isinstance(t, ast.Name):
        yield t.id, None
    elif isinstance(t, (ast.Tuple, ast.List)):
        for i, e in enumerate(t.elts):
            if isinstance(e, ast.Starred):
                e = e.value
            for n, _ in _targets(e):
                yield n, i


class DefUse:
    def __init__(self, func_node: ast.AST, *, with_nested: bool = False):
        self.func = func_node
        self.defs: Dict[str, List[Def]] = {}
        args = getattr(func_node, "args", None)
        if args is not None:
            for a in args.posonlyargs + args.args + args.kwonlyargs + ([args.vararg] if args.vararg else []) + ([args.kwarg] if args.kwarg else []):
                self._add(Def(a.arg, None, func_node, "param"))
        walker = ast.walk(func_node) if with_nested else walk_no_nested(func_node)
        for n in walker:
            if isinstance(n, ast.Assign):
                for t in n.targets:
                    if isinstance(t, ast.Subscript) and isinstance(t.value, ast.Name):
                        # X[i] = v : the container X is (partly) computed from v
                        self._add(Def(t.value.id, n.value, n, "setitem"))
                        continue
                    multi = isinstance(t, (ast.Tuple, ast.List))
                    for name, i in _targets(t):
                        val = n.value
                        if multi and isinstance(n.value, (ast.Tuple, ast.List)) and i is not None and i < len(n.value.elts) and len(n.value.elts) == len(t.elts):  # type: ignore[attr-defined]
                            self._add(Def(name, n.value.elts[i], n, "assign"))
                        else:
                            self._add(Def(name, val, n, "unpack" if multi else "assign", i if multi else None))
            elif isinstance(n, ast.AnnAssign) and n.value is not None:
                for name, i in _targets(n.target):
                    self._add(Def(name, n.value, n, "assign"))
            elif isinstance(n, ast.AugAssign):
                for name, i in _targets(n.target):
                    self._add(Def(name, n.value, n, "aug"))
            elif isinstance(n, (ast.For, ast.AsyncFor)):
                for name, i in _targets(n.target):
                    self._add(Def(name, n.iter, n, "for", i))
            elif isinstance(n, (ast.With, ast.AsyncWith)):
                for it in n.items:
                    if it.optional_vars is not None:
                        for name, i in _targets(it.optional_vars):
                            self._add(Def(name, it.context_expr, n, "with", i))
            elif isinstance(n, ast.NamedExpr):
                for name, i in _targets(n.target):
                    self._add(Def(name, n.value, n, "walrus"))
            elif isinstance(n, ast.comprehension):
                for name, i in _targets(n.target):
                    self._add(Def(name, n.iter, n, "comp", i))

    def _add(self, d: Def) -> None:
        self.defs.setdefault(d.name, []).append(d)

    def values(self, name: str) -> List[ast.expr]:
        return [d.value for d in self.defs.get(name, []) if d.value is not None]

    def is_param(self, name: str) -> bool:
        return any(d.kind == "param" for d in self.defs.get(name, []))

    def only_param(self, name: str) -> bool:
        ds = self.defs.get(name, [])
        return bool(ds) and all(d.kind == "param" for d in ds)

    def closure(self, names: Iterable[str], *, max_iter: int = 50) -> Set[str]:
        """All names the given names are transitively computed from (including themselves)."""
        seen: Set[str] = set()
        todo = list(names)
        while todo and max_iter:
            max_iter -= 0
            n = todo.pop()
            if n in seen:
                continue
            seen.add(n)
            for v in self.values(n):
                for m in names_in(v):
                    if m not in seen:
                        todo.append(m)
        return seen

    def derived_from(self, expr: ast.AST, sources: Set[str]) -> bool:
        """Does expr (transitively through local assignments) mention one of the source names?"""
        return bool(self.closure(names_in(expr)) & sources)

    def forward(self, sources: Set[str]) -> Set[str]:
        """All local names that are transitively computed from one of `sources`."""
        out = set(sources)
        changed = True
        while changed:
            changed = False
            for name, ds in self.defs.items():
                if name in out:
                    continue
                for d in ds:
                    if d.value is not None and names_in(d.value) & out:
                        out.add(name)
                        changed = True
                        break
        return out


def names_in(expr: ast.AST) -> Set[str]:
    return {n.id for n in ast.walk(expr) if isinstance(n, ast.Name)}


def calls_in(expr: ast.AST) -> List[ast.Call]:
    return [n for n in ast.walk(expr) if isinstance(n, ast.Call)]


def str_consts_in(expr: ast.AST) -> Set[str]:
    return {n.value for n in ast.walk(expr) if isinstance(n, ast.Constant) and isinstance(n.value, str)}


_DU: Dict[int, DefUse] = {}


def defuse(func_node: ast.AST) -> DefUse:
    d = _DU.get(id(func_node))
    if d is None:
        d = DefUse(func_node)
        _DU[id(func_node)] = d
    return d


def _own_exprs(st: ast.AST) -> List[ast.AST]:
    """The expressions a statement evaluates itself (not the statements nested in its blocks)."""
    if isinstance(st, (ast.If, ast.While)):
        return [st.test]
    if isinstance(st, (ast.For, ast.AsyncFor)):
        return [st.iter]
    if isinstance(st, (ast.With, ast.AsyncWith)):
        return [it.context_expr for it in st.items]
    if isinstance(st, ast.Try):
        return []
    if isinstance(st, ast.ExceptHandler):
        return [st.type] if st.type is not None else []
    if isinstance(st, (ast.FunctionDef, ast.AsyncFunctionDef, ast.ClassDef, ast.Lambda)):
        return [st]  # a closure may read the name
    if st.__class__.__name__ == "Match":
        return [st.subject]  # type: ignore[attr-defined]
    return [st]


def _kills(st: ast.AST, name: str) -> bool:
    if isinstance(st, ast.Delete):
        return any(isinstance(t, ast.Name) and t.id == name for t in st.targets)
    tgts: List[ast.AST] = []
    if isinstance(st, ast.Assign):
        tgts = list(st.targets)
    elif isinstance(st, (ast.AnnAssign,)):
        tgts = [st.target] if st.value is not None else []
    elif isinstance(st, (ast.For, ast.AsyncFor)):
        tgts = [st.target]
    elif isinstance(st, (ast.With, ast.AsyncWith)):
        tgts = [it.optional_vars for it in st.items if it.optional_vars is not None]
    return any(n == name for t in tgts for n, _ in _targets(t))  # type: ignore[arg-type]


def param_value_used(func_node: ast.AST, name: str) -> bool:
    """Does the value the parameter `name` holds at entry reach a read (reaching-definition walk on the CFG)?"""
    from .cfg import cfg_of

    g = cfg_of(func_node)
    seen: Set[int] = set()
    todo = [g.ENTRY]
    while todo:
        n = todo.pop()
        if n in seen:
            continue
        seen.add(n)
        st = g.stmt_of.get(n)
        if st is not None and g.kind_of.get(n) in ("stmt", "handler"):
            for e in _own_exprs(st):
                for x in ast.walk(e):
                    if isinstance(x, ast.Name) and x.id == name and isinstance(x.ctx, ast.Load):
                        return True
            if _kills(st, name):
                continue
        for y, _lab in g.succ[n]:
            todo.append(y)
    return False
