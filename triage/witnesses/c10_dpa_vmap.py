import numpy as np, jax
import onnxruntime as ort
from jax2onnx.user_interface import to_onnx
def run(fn, args):
    m = to_onnx(fn, [jax.ShapeDtypeStruct(a.shape, a.dtype) for a in args])
    s = ort.InferenceSession(m.SerializeToString()); return s.run(None, {i.name: np.asarray(a) for i, a in zip(s.get_inputs(), args)})[0]
rng = np.random.default_rng(0); bad = 0
T, S, H, N = 3, 5, 4, 2
def case(name, f, *args):
    global bad
    ref = np.asarray(f(*args))
    try:
        got = run(f, list(args)); d = float(np.abs(got - ref).max()) if got.shape == ref.shape else None
        ok = d is not None and d < 1e-5; print(name, got.shape, ref.shape, d, ok); bad += not ok
    except Exception as e:
        print(name, "ERR", type(e).__name__, str(e)[:120]); bad += 1
for B in (2, 3):
    q = rng.normal(size=(B, T, N, H)).astype(np.float32); k = rng.normal(size=(B, S, N, H)).astype(np.float32); v = rng.normal(size=(B, S, N, H)).astype(np.float32)
    b2 = rng.normal(size=(B, T, S)).astype(np.float32); b3 = rng.normal(size=(B, N, T, S)).astype(np.float32)
    m2 = rng.random((B, T, S)) > 0.3; m2[..., 0] = True
    case(f"B={B} bias rank2", lambda q,k,v,b: jax.vmap(lambda q,k,v,b: jax.nn.dot_product_attention(q,k,v,bias=b))(q,k,v,b), q,k,v,b2)
    case(f"B={B} bias rank3", lambda q,k,v,b: jax.vmap(lambda q,k,v,b: jax.nn.dot_product_attention(q,k,v,bias=b))(q,k,v,b), q,k,v,b3)
    case(f"B={B} mask rank2", lambda q,k,v,m: jax.vmap(lambda q,k,v,m: jax.nn.dot_product_attention(q,k,v,mask=m))(q,k,v,m), q,k,v,m2)
    case(f"B={B} bias unmapped", lambda q,k,v,b: jax.vmap(lambda q,k,v: jax.nn.dot_product_attention(q,k,v,bias=b[0]))(q,k,v), q,k,v,b2)
    # rank-5 path: per-example batch of 2
    q5 = rng.normal(size=(B, 2, T, N, H)).astype(np.float32); k5 = rng.normal(size=(B, 2, S, N, H)).astype(np.float32); v5 = rng.normal(size=(B, 2, S, N, H)).astype(np.float32)
    case(f"B={B} rank5 bias rank2", lambda q,k,v,b: jax.vmap(lambda q,k,v,b: jax.nn.dot_product_attention(q,k,v,bias=b))(q,k,v,b), q5,k5,v5,b2)
raise SystemExit(int(bad > 0))
