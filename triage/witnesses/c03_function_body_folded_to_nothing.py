"""An inverse pair that spans a whole @onnx_function body is folded away; the function output was then the function input and
ONNX Runtime refused to load the model (C03; seeded/C03g/notes.md S3)."""
import logging; logging.disable(logging.CRITICAL)
import numpy as np, jax, jax.numpy as jnp
from jax2onnx import to_onnx, onnx_function
import onnxruntime as ort
bad = 0
@onnx_function
def rr(x): return x.reshape(1, 3).reshape(3)
@onnx_function
def tt(x): return jnp.transpose(jnp.transpose(x))
for name, f, spec, x in (("reshape pair", lambda x: rr(x) + 1, (3,), np.arange(3, dtype=np.float32)), ("transpose pair", lambda x: tt(x) * 2, (2, 3), np.arange(6, dtype=np.float32).reshape(2, 3))):
    m = to_onnx(f, [spec])
    try:
        s = ort.InferenceSession(m.SerializeToString())
        got = s.run(None, {s.get_inputs()[0].name: x})[0]
        ok = np.allclose(got, np.asarray(f(x)))
        print(name, "loads, values", "ok" if ok else "WRONG"); bad += not ok
    except Exception as e:
        print(name, "ORT refuses:", str(e)[:110]); bad += 1
raise SystemExit(1 if bad else 0)
