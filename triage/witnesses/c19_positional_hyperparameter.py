"""jax.nn.celu(x, 0.3): the generic forwarder bound the positional alpha as a second operand, the lowering read
eqn.params.get("alpha", 1.0) -> alpha = 1.0 silently; elu / leaky_relu / gelu raised `too many values to unpack`
(seeded/C19h/notes.md)."""
import logging; logging.disable(logging.CRITICAL)
import numpy as np, jax, jax.numpy as jnp
from jax2onnx import to_onnx
import onnxruntime as ort
x = np.array([-3.0, -1.0, 0.5, 2.0], np.float32)
bad = 0
for name, f in [("celu", lambda a: jax.nn.celu(a, 0.3)), ("elu", lambda a: jax.nn.elu(a, 0.3)), ("leaky_relu", lambda a: jax.nn.leaky_relu(a, 0.3)), ("gelu", lambda a: jax.nn.gelu(a, False))]:
    exp = np.asarray(f(x))
    try:
        m = to_onnx(f, [(4,)])
        got = ort.InferenceSession(m.SerializeToString()).run(None, {"in_0": x})[0]
        ok = np.allclose(got, exp, atol=1e-5); print(name, "OK" if ok else f"MISMATCH jax={exp.tolist()} onnx={got.tolist()}")
    except Exception as e:  # noqa: BLE001
        ok = False; print(name, "FAILED", type(e).__name__, str(e)[:80])
    bad += not ok
raise SystemExit(1 if bad else 0)
