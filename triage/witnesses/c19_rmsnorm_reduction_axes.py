"""nnx.RMSNorm(feature_axes=1) keeps reduction_axes=-1 in Flax (mean of squares over the last axis, scale along axis 1);
the substitute read feature_axes as THE axis and never read reduction_axes (seeded/C11h/notes.md observation 3)."""
import logging; logging.disable(logging.CRITICAL)
import numpy as np, jax, jax.numpy as jnp
from flax import nnx
from jax2onnx import to_onnx
import onnxruntime as ort
x = np.random.RandomState(0).randn(2, 4, 4).astype(np.float32)
bad = 0
for kw in [dict(feature_axes=1), dict(feature_axes=-1), dict(feature_axes=2, reduction_axes=(1, 2)), dict(feature_axes=1, reduction_axes=1)]:
    mod = nnx.RMSNorm(4, rngs=nnx.Rngs(0), **kw)
    exp = np.asarray(mod(x))
    for o in (22, 23):
        m = to_onnx(lambda a: mod(a), [(2, 4, 4)], opset=o)
        s = ort.InferenceSession(m.SerializeToString())
        err = float(np.max(np.abs(s.run(None, {s.get_inputs()[0].name: x})[0] - exp)))
        print(kw, "opset", o, "max abs err", err); bad += err > 1e-3
raise SystemExit(1 if bad else 0)
