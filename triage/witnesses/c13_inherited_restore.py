import jax, jax.numpy as jnp
import flax.linen as nn
from flax.linen import attention as A
import jax2onnx
from jax2onnx.plugins.plugin_system import import_all_plugins
import_all_plugins()
def snap():
    return {"MHA_own": "__call__" in A.MultiHeadAttention.__dict__, "MHA_is_base": A.MultiHeadAttention.__call__ is A.MultiHeadDotProductAttention.__call__, "qual": getattr(A.MultiHeadAttention.__call__, "__qualname__", None)}
print("before", snap())
jax2onnx.to_onnx(lambda x: x + 1.0, inputs=[(2, 3)])
print("after ", snap())
