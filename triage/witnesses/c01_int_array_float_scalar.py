import numpy as np, jax, jax.numpy as jnp
from jax2onnx import to_onnx
import onnxruntime as ort
x = np.array([1, 2, 3], np.int32)
cases = {"add": lambda x: jnp.add(x, 2.5), "maximum": lambda x: jnp.maximum(x, 1.5), "minimum": lambda x: jnp.minimum(x, 1.5), "divide": lambda x: jnp.divide(x, 2.5),
 "floor_divide": lambda x: jnp.floor_divide(x, 1.5), "fmod": lambda x: jnp.fmod(x, 1.5), "copysign": lambda x: jnp.copysign(x, -0.5)}
bad = 0
for name, f in cases.items():
    m = to_onnx(f, inputs=[jax.ShapeDtypeStruct(x.shape, x.dtype)], model_name=name)
    s = ort.InferenceSession(m.SerializeToString())
    got = s.run(None, {s.get_inputs()[0].name: x})[0]
    want = np.asarray(f(x))
    ok = got.dtype.kind == want.dtype.kind and np.allclose(got, want)
    bad += not ok
    print(("ok  " if ok else "BAD ") + name, "got", got.dtype, got.tolist(), "want", want.dtype, want.tolist())
print("confirmed", bad, "of", len(cases))
