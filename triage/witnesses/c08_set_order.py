import numpy as np, jax, jax.numpy as jnp, onnx
from jax2onnx import to_onnx
import onnxruntime as ort
def show(name, f, shapes):
    m = to_onnx(f, inputs=[jax.ShapeDtypeStruct(s, jnp.float32) for s in shapes], model_name=name)
    print(name)
    vi = {v.name: v for v in list(m.graph.value_info) + list(m.graph.output)+list(m.graph.input)}
    for n in m.graph.node:
        def sh(o):
            if o in vi:
                return [d.dim_value for d in vi[o].type.tensor_type.shape.dim]
        print("  ", n.op_type, [(i, sh(i)) for i in n.input], "->", [(o, sh(o)) for o in n.output])
    try:
        s = ort.InferenceSession(m.SerializeToString())
        rng = np.random.default_rng(0)
        feeds = {i.name: rng.standard_normal(sh).astype(np.float32) for i, sh in zip(s.get_inputs(), shapes)}
        r = s.run(None, feeds)
        print("   ort ok, out shape", r[0].shape, "declared", [d.dim_value for d in m.graph.output[0].type.tensor_type.shape.dim])
    except Exception as e:
        print("   ORT FAIL", str(e)[:200])
    try:
        onnx.checker.check_model(m, full_check=True); print("   checker ok")
    except Exception as e:
        print("   CHECKER FAIL", str(e)[:300])
show("a", lambda x, y: jnp.transpose(-jnp.exp(jnp.transpose(x))) * y, [(3, 5), (3, 5)])
show("b", lambda x, y: jnp.transpose(jnp.tanh(-jnp.exp(jnp.transpose(x)))) * y, [(3, 5), (3, 5)])
