import jax
from jax2onnx import to_onnx
jax.config.update('jax_enable_x64', True)
print('global before', jax.config.jax_enable_x64)
with jax.enable_x64(False):
    m = to_onnx(lambda x: x * 0.1, [(3,)], enable_double_precision=True)
    print('  inside ctx after to_onnx:', jax.config.jax_enable_x64, 'output elem type', m.graph.output[0].type.tensor_type.elem_type)
print('global after', jax.config.jax_enable_x64)
jax.config.update('jax_enable_x64', False)
with jax.enable_x64(True):
    m = to_onnx(lambda x: x * 0.1, [(3,)], enable_double_precision=False)
    print('  inside ctx after to_onnx:', jax.config.jax_enable_x64, 'output elem type', m.graph.output[0].type.tensor_type.elem_type)
print('global after (case 2, was False)', jax.config.jax_enable_x64)
