import numpy as np, jax, jax.numpy as jnp, onnx
from jax2onnx import to_onnx
import onnxruntime as ort
def run(name, f, inputs, feeds):
    m = to_onnx(f, inputs=inputs, model_name=name)
    print(name, [n.op_type for n in m.graph.node])
    o = m.graph.output[0]
    print("   declared:", o.type.tensor_type.elem_type, [(d.dim_value or d.dim_param) for d in o.type.tensor_type.shape.dim])
    try:
        onnx.checker.check_model(m, full_check=True); print("   checker ok")
    except Exception as e: print("   CHECKER FAIL", str(e)[:200])
    try:
        s = ort.InferenceSession(m.SerializeToString())
        r = s.run(None, dict(zip([i.name for i in s.get_inputs()], feeds)))
        print("   runtime:", r[0].dtype, r[0].shape)
    except Exception as e: print("   ORT FAIL", str(e)[:200])
run("bcast", lambda x, y: x.reshape(1, -1) * y, [("B",4),(3,"4*B")], [np.ones((2,4),np.float32), np.ones((3,8),np.float32)])
run("f16", lambda x: jax.nn.relu(x) * 2, [jax.ShapeDtypeStruct((3,), jnp.float16)], [np.ones((3,),np.float16)])
run("f16b", lambda x: x + x, [jax.ShapeDtypeStruct((3,), jnp.float16)], [np.ones((3,),np.float16)])
run("bf16", lambda x: jnp.tanh(x), [jax.ShapeDtypeStruct((3,), jnp.bfloat16)], [np.ones((3,),np.float32)])
