import jax, jax.numpy as jnp
import jax2onnx
from jax2onnx.plugins.plugin_system import import_all_plugins, PLUGIN_REGISTRY, _iter_patch_specs
from jax2onnx.plugins._patching import _resolve
import_all_plugins()
pairs=[]
for p in PLUGIN_REGISTRY.values():
    bs=getattr(p,"binding_specs",None)
    if callable(bs):
        try:
            for s in bs():
                pairs.append((_resolve(s.target), s.attr))
        except Exception as e: pass
def snap():
    out={}
    for t,a in pairs:
        try: own = a in vars(t)
        except TypeError: own=None
        out[(getattr(t,'__name__',repr(t)),a)]=(own, id(getattr(t,a,None)))
    return out
b=snap()
jax2onnx.to_onnx(lambda x: x + 1.0, inputs=[(2, 3)])
a=snap()
diff={k:(b[k],a[k]) for k in b if b[k]!=a[k]}
print(len(pairs), "pairs; changed:", diff)
