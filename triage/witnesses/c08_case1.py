"""Witness for C08/R-C08c: single-consumer Transpose chain fold leaves a stale shape annotation on the re-meant node."""
import numpy as np, onnx_ir as ir
from jax2onnx.converter.ir_optimizations import optimize_graph
x = ir.val("x", ir.DataType.FLOAT, (2, 3, 4, 5))
t1 = ir.val("t1", ir.DataType.FLOAT, (2, 4, 5, 3))
e = ir.val("e", ir.DataType.FLOAT, (2, 4, 5, 3))
y = ir.val("y", ir.DataType.FLOAT, (2, 3, 4, 5))
z = ir.val("z", ir.DataType.FLOAT, (2, 3, 4, 5))
n1 = ir.Node("", "Transpose", inputs=[x], outputs=[t1], attributes=[ir.AttrInt64s("perm", [0, 2, 3, 1])], name="T1")
n2 = ir.Node("", "Elu", inputs=[t1], outputs=[e], name="Elu")
n3 = ir.Node("", "Transpose", inputs=[e], outputs=[y], attributes=[ir.AttrInt64s("perm", [0, 3, 1, 2])], name="T2")
n4 = ir.Node("", "Neg", inputs=[y], outputs=[z], name="Neg")
g = ir.Graph(name="g", inputs=[x], outputs=[z], nodes=[n1, n2, n3, n4], opset_imports={"": 21})
m = optimize_graph(ir.Model(graph=g, ir_version=10))
for n in m.graph:
    print(n.op_type, [(o.name, tuple(o.shape) if o.shape is not None else None) for o in n.outputs])
