# Side observation probe: @onnx_function registry key uses module + __name__ (not __qualname__).
import sys, hashlib
import jax.numpy as jnp
from jax2onnx import to_onnx, onnx_function

def make_model(scale):
    @onnx_function
    class Block:
        def __init__(self, s): self.s = s
        def __call__(self, x):
            return jnp.tanh(x) * self.s
    b = Block(scale)
    def model(x):
        return b(x) + 1.0
    return model

def export(m):
    p = to_onnx(m, [(2, 3)], model_name="m")
    return p

if len(sys.argv) > 1 and sys.argv[1] == "history":
    m1 = make_model(2.0)
    if "noexport" not in sys.argv: export(m1)
m2 = make_model(3.0)
p = export(m2)
print(len(p.functions), [n.op_type for n in p.graph.node], hashlib.sha256(p.SerializeToString(deterministic=True)).hexdigest()[:16])
