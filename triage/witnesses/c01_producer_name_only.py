"""Plugin lowerings that pick a fused form by the PRODUCER's operator name took the call node of an @onnx_function with
that name for the standard operator (R-C01p).  log(sum(Exp(x))) with a user block called `Exp` was exported as
ReduceLogSumExp(x).  Run: PYTHONPATH=<tree> /venv/bin/python triage/witnesses/c01_producer_name_only.py"""
import logging; logging.disable(logging.CRITICAL)
import numpy as np, jax, jax.numpy as jnp
from jax2onnx import to_onnx, onnx_function
import onnxruntime as ort

@onnx_function
def Exp(x):            # a user block that happens to be called Exp
    return x * 2.0 + 1.0

f = lambda x: jnp.log(jnp.sum(Exp(x), axis=1))
x = np.arange(6, dtype=np.float32).reshape(2, 3) / 4
m = to_onnx(f, [(2, 3)])
s = ort.InferenceSession(m.SerializeToString())
got = s.run(None, {s.get_inputs()[0].name: x})[0]
ref = np.asarray(f(x))
print("ops", [n.op_type for n in m.graph.node], "onnx", got, "jax", ref)
raise SystemExit(0 if np.allclose(got, ref, atol=1e-5) else 1)
