import warnings; warnings.filterwarnings("ignore")
import logging; logging.disable(logging.CRITICAL)
import numpy as np, jax, jax.numpy as jnp, onnx, tempfile, os
from jax2onnx import to_onnx, allclose, onnx_function
# (e) C05/C12: unused NCHW-flagged positional input
def f(x, y): return y * 2.0
m = to_onnx(f, [(1,4,4,3), (2,)], inputs_as_nchw=[0])
print("(e) inputs:", [i.name for i in m.graph.input], " expected 2 positional inputs")
m2 = to_onnx(f, [(1,4,4,3), (2,)])
print("    plain :", [i.name for i in m2.graph.input])
# (b) C18: int expected vs float got
import onnx.helper as oh
g = oh.make_graph([oh.make_node("Add",["x","c"],["y"])],"g",[oh.make_tensor_value_info("x",onnx.TensorProto.FLOAT,[3])],[oh.make_tensor_value_info("y",onnx.TensorProto.FLOAT,[3])],[oh.make_tensor("c",onnx.TensorProto.FLOAT,[3],[0.9,0.9,0.9])])
mp = oh.make_model(g, opset_imports=[oh.make_opsetid("",21)]); mp.ir_version=10
d=tempfile.mkdtemp(); p=os.path.join(d,"m.onnx"); onnx.save(mp,p)
def fn(x): return x.astype(jnp.int32)      # JAX: [1,2,3]; model: [1.9,2.9,3.9]
print("(b) allclose(int fn, float model off by 0.9):", allclose(fn, p, [np.array([1.,2.,3.],np.float32)]))
# (a) C07: static kwarg that np.asarray cannot convert (ragged) -> fallback key
@onnx_function
def scale(x, *, cfg=None):
    return x * float(len(cfg[0]) + 10*len(cfg[1]))
def h(x): return scale(x, cfg=((1,2),(3,))) + scale(x, cfg=((1,),(2,3)))
try:
    mm = to_onnx(h, [(3,)])
    import onnxruntime as ort
    s=ort.InferenceSession(mm.SerializeToString())
    x=np.ones(3,np.float32)
    print("(a) functions:", len(mm.functions), "ORT:", s.run(None,{s.get_inputs()[0].name:x})[0], "JAX:", np.asarray(h(x)))
except Exception as e:
    print("(a) raised", type(e).__name__, str(e)[:150])
