import numpy as np, jax, jax.numpy as jnp, onnx
from jax2onnx import to_onnx
xi = jax.ShapeDtypeStruct((4,), jnp.int32); xf = jax.ShapeDtypeStruct((4,), jnp.float32)
def doubles(m):
    out=[]
    def walk(g, where):
        for t in g.initializer:
            if t.data_type==11: out.append((where,'init',t.name))
        for v in list(g.value_info)+list(g.output)+list(g.input):
            if v.type.tensor_type.elem_type==11: out.append((where,'value',v.name))
        for n in g.node:
            for a in n.attribute:
                if n.op_type=='Cast' and a.name=='to' and a.i==11: out.append((where,'Cast',n.name))
                if a.type==onnx.AttributeProto.GRAPH: walk(a.g, where+'/'+n.name)
    walk(m.graph,'main'); return out
cases = {
 "add": (lambda a,b: jnp.add(a,b), [xi,xf]), "concatenate": (lambda a,b: jnp.concatenate([a,b]), [xi,xf]),
 "digitize": (lambda a,b: jnp.digitize(a,b), [xi,xf]), "equal": (lambda a,b: jnp.equal(a,b), [xi,xf]),
 "greater": (lambda a,b: jnp.greater(a,b), [xi,xf]), "greater_equal": (lambda a,b: jnp.greater_equal(a,b), [xi,xf]),
 "less": (lambda a,b: jnp.less(a,b), [xi,xf]), "less_equal": (lambda a,b: jnp.less_equal(a,b), [xi,xf]),
 "maximum": (lambda a,b: jnp.maximum(a,b), [xi,xf]), "minimum": (lambda a,b: jnp.minimum(a,b), [xi,xf]),
 "outer": (lambda a,b: jnp.outer(a,b), [xi,xf]), "searchsorted": (lambda a,b: jnp.searchsorted(a,b), [xi,xf]),
 "where": (lambda a,b: jnp.where(a>1,a,b), [xi,xf]), "interp": (lambda a,b: jnp.interp(b, a, b), [xi,xf]),
 "histogram": (lambda a,b: jnp.histogram(a, bins=b)[0], [xi,xf]),
 "linspace": (lambda a,b: jnp.linspace(a[0], b[0], 3), [xi,xf]),
 "histogram2d": (lambda a,b: jnp.histogram2d(a, b, bins=2)[0], [xi,xf]),
 "histogramdd": (lambda a,b: jnp.histogramdd(jnp.stack([a.astype(jnp.float32),b],1), bins=2)[0], [xi,xf]),
}
conf=0
for name,(f,ins) in cases.items():
    try:
        m = to_onnx(f, inputs=ins, model_name=name)
        d = doubles(m)
        want = jax.eval_shape(f,*ins)
        wd = [str(w.dtype) for w in jax.tree_util.tree_leaves(want)]
        print(("DOUBLE " if d else "clean  ")+name, "jax dtype", wd, "| DOUBLE items:", len(d), d[:2])
        conf += bool(d)
    except Exception as e:
        print("ERR    "+name, type(e).__name__, str(e)[:90])
print("with DOUBLE:", conf)
