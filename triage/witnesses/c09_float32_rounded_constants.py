"""Constants computed in Python and rounded to float32 inside lowerings although the export is double precision:
jnp.hamming's affine correction (stored 1.0076190233230591 instead of 1.0076190476190476) and, below opset 23,
eqx.nn.MultiheadAttention's 1/sqrt(qk_size) (rel. error 1e-7 instead of 1e-15) (seeded/C09h/notes.md, clause 2)."""
import logging; logging.disable(logging.CRITICAL)
import numpy as np, jax, jax.numpy as jnp
from onnx import numpy_helper
jax.config.update("jax_enable_x64", True)
import equinox as eqx
from jax2onnx import to_onnx
import onnxruntime as ort
bad = 0
f = lambda x: jnp.hamming(8) * x
m = to_onnx(f, [jax.ShapeDtypeStruct((8,), np.float64)], enable_double_precision=True)
scale = [float(numpy_helper.to_array(i)) for i in m.graph.initializer if "scale" in i.name][0]
print("hamming scale stored %.17g, exact %.17g" % (scale, 0.46 / (21 / 46))); bad += abs(scale - 0.46 / (21 / 46)) > 1e-15
mha = eqx.nn.MultiheadAttention(num_heads=2, query_size=6, dtype=jnp.float64, key=jax.random.PRNGKey(0))
g = lambda q: mha(q, q, q)
x = np.random.RandomState(0).randn(5, 6)
m = to_onnx(g, [jax.ShapeDtypeStruct((5, 6), np.float64)], enable_double_precision=True, opset=21)
so = ort.SessionOptions(); so.graph_optimization_level = ort.GraphOptimizationLevel.ORT_DISABLE_ALL
s = ort.InferenceSession(m.SerializeToString(), so)
got = s.run(None, {s.get_inputs()[0].name: x})[0]; exp = np.asarray(g(x))
err = float(np.max(np.abs(got - exp) / np.maximum(np.abs(exp), 1e-300)))
print("mha (opset 21) rel err", err); bad += err > 1e-11
raise SystemExit(1 if bad else 0)
