import numpy as np, jax, jax.numpy as jnp, onnx
from jax2onnx import to_onnx, onnx_function
import onnxruntime as ort
@onnx_function
def passthrough(x):
    return x
def f(x):
    return passthrough(x) + 1.0
m = to_onnx(f, inputs=[(3,)])
print([ (n.domain, n.op_type) for n in m.graph.node], [(fn.name, [n.op_type for n in fn.node], list(fn.input), list(fn.output)) for fn in m.functions])
try:
    onnx.checker.check_model(m, full_check=True); print("checker ok")
except Exception as e: print("CHECKER FAIL", str(e)[:300])
try:
    s = ort.InferenceSession(m.SerializeToString()); r = s.run(None, {s.get_inputs()[0].name: np.ones(3, np.float32)}); print("ort ok", r[0])
except Exception as e: print("ORT FAIL", str(e)[:300])
