"""jax.image.resize(method="nearest") with an even integer down-sampling factor: Resize(half_pixel, round_prefer_floor) picks
floor-of-tie source pixels, JAX uses floor((i + 0.5) * in / out) (seeded/C01h/notes.md observation 1)."""
import logging; logging.disable(logging.CRITICAL)
import numpy as np, jax, jax.numpy as jnp
from jax2onnx import to_onnx
import onnxruntime as ort
bad = 0
for shape, out in [((4, 4), (2, 2)), ((6,), (3,)), ((6,), (4,)), ((5,), (10,)), ((7,), (3,)), ((8, 6), (2, 3)), ((3,), (7,))]:
    f = lambda x: jax.image.resize(x, out, "nearest")
    x = np.arange(int(np.prod(shape)), dtype=np.float32).reshape(shape)
    m = to_onnx(f, [jax.ShapeDtypeStruct(shape, np.float32)])
    s = ort.InferenceSession(m.SerializeToString())
    got = s.run(None, {s.get_inputs()[0].name: x})[0]
    exp = np.asarray(f(x))
    ok = np.array_equal(got, exp)
    bad += not ok
    print(shape, out, "OK" if ok else f"MISMATCH jax={exp.ravel().tolist()} onnx={got.ravel().tolist()}")
raise SystemExit(1 if bad else 0)
