import numpy as np, jax, jax.numpy as jnp
from jax2onnx import to_onnx
import onnxruntime as ort
x = np.array([[0, 1, 2], [2, 1, 0]], np.int32); bad = 0
for in_axis in (0, 1):
    for axis in (-2, -1, 0, 1):
        g = lambda x: jax.vmap(lambda v: jax.nn.one_hot(v, 4, axis=axis), in_axes=in_axis)(x)
        ref = np.asarray(g(x))
        try:
            m = to_onnx(g, [jax.ShapeDtypeStruct(x.shape, x.dtype)])
            s = ort.InferenceSession(m.SerializeToString(), providers=["CPUExecutionProvider"])
            got = s.run(None, {s.get_inputs()[0].name: x})[0]
        except Exception as e:
            print(in_axis, axis, "ERR", type(e).__name__, str(e)[:100]); bad += 1; continue
        ok = got.shape == ref.shape and np.array_equal(got, ref); print(in_axis, axis, got.shape, ref.shape, ok); bad += not ok
raise SystemExit(int(bad > 0))
