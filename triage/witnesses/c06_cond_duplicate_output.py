import logging; logging.disable(logging.CRITICAL)
import numpy as np, jax, jax.numpy as jnp
from jax import lax
from jax2onnx import to_onnx
import onnxruntime as ort
def run(name,f,specs,feeds):
    try:
        m=to_onnx(f,specs); s=ort.InferenceSession(m.SerializeToString())
        got=s.run(None,{i.name:v for i,v in zip(s.get_inputs(),feeds)})
        ref=[np.asarray(o) for o in jax.tree_util.tree_leaves(f(*feeds))]
        ok=all(g.shape==r.shape and np.allclose(g,r) for g,r in zip(got,ref))
        print(name,'OK' if ok else 'MISMATCH',[g.tolist() for g in got],[r.tolist() for r in ref])
    except Exception as e: print(name,'EXC',type(e).__name__,str(e)[:150])
x=np.ones(3,np.float32)
def dup(y):
    z=y+1.0
    return z,z
run('cond',lambda x: lax.cond(x.sum()>0,dup,lambda y:(y,y*2),x),[(3,)],[x])
run('fori',lambda x: lax.fori_loop(0,2,lambda i,c:(c[0]+1.0,c[0]+1.0) and ((lambda z:(z,z))(c[0]+1.0)),(x,x)),[(3,)],[x])
run('while',lambda x: lax.while_loop(lambda c:c[0].sum()<10,lambda c:(lambda z:(z,z))(c[0]+1.0),(x,x)),[(3,)],[x])
run('scan',lambda x: lax.scan(lambda c,_:(lambda z:(z,z))(c+1.0),x,None,length=3),[(3,)],[x])
run('scan2',lambda x: lax.scan(lambda c,_:(lambda z:((z,z),z))(c[0]+1.0),(x,x),None,length=3),[(3,)],[x])
