"""Witness: removal of a node whose output is only read from inside a nested (If) body.
(i) remove_orphan_transposes_ir, (ii) swish rewrite dropping a Sigmoid captured by a body."""
import numpy as np, onnx_ir as ir, onnx, onnxruntime as ort
from jax2onnx.converter.ir_optimizations import optimize_graph

def run(model, feeds):
    proto = ir.to_proto(model)
    onnx.checker.check_model(proto, full_check=True)
    s = ort.InferenceSession(proto.SerializeToString())
    return s.run(None, feeds)

def build(kind):
    x = ir.val("x", ir.DataType.FLOAT, (2, 3))
    c = ir.val("c", ir.DataType.BOOL, ())
    if kind == "transpose":
        t = ir.val("t", ir.DataType.FLOAT, (3, 2))
        n1 = ir.Node("", "Transpose", inputs=[x], outputs=[t], attributes=[ir.AttrInt64s("perm", [1, 0])], name="T")
        pre = [n1]; captured = t; cap_shape = (3, 2)
    else:
        sg = ir.val("sg", ir.DataType.FLOAT, (2, 3)); m = ir.val("m", ir.DataType.FLOAT, (2, 3))
        n1 = ir.Node("", "Sigmoid", inputs=[x], outputs=[sg], name="Sig")
        n2 = ir.Node("", "Mul", inputs=[x, sg], outputs=[m], name="Mul")
        pre = [n1, n2]; captured = sg; cap_shape = (2, 3)
    def branch(name, op):
        o = ir.val(name + "_o", ir.DataType.FLOAT, cap_shape)
        n = ir.Node("", op, inputs=[captured], outputs=[o], name=name)
        return ir.Graph(name=name, inputs=[], outputs=[o], nodes=[n], opset_imports={"": 24})
    y = ir.val("y", ir.DataType.FLOAT, cap_shape)
    nif = ir.Node("", "If", inputs=[c], outputs=[y], attributes=[ir.AttrGraph("then_branch", branch("then", "Neg")), ir.AttrGraph("else_branch", branch("else", "Abs"))], name="If")
    outs = [y] + ([pre[-1].outputs[0]] if kind != "transpose" else [])
    g = ir.Graph(name="g", inputs=[x, c], outputs=outs, nodes=pre + [nif], opset_imports={"": 24})
    return ir.Model(graph=g, ir_version=10)

for kind in ("transpose", "swish"):
    feeds = {"x": np.arange(6, dtype=np.float32).reshape(2, 3), "c": np.array(True)}
    ref = run(build(kind), feeds)
    try:
        got = run(optimize_graph(build(kind)), feeds)
        ok = all(np.allclose(a, b) for a, b in zip(ref, got))
        print(kind, "OK" if ok else "MISMATCH")
    except Exception as e:
        print(kind, "INVALID after optimize:", str(e)[:160].replace("\n", " "))
