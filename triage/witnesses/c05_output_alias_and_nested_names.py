import numpy as np, jax, jax.numpy as jnp
from jax2onnx import to_onnx
import onnxruntime as ort, onnx
bad = 0
def names(m): return [i.name for i in m.graph.input], [o.name for o in m.graph.output]
m = to_onnx(lambda x, y: (x, y + 1), inputs=[(3,), (3,)], output_names=["c", "d"]); print(names(m)); bad += names(m) != (["in_0", "in_1"], ["c", "d"])
m = to_onnx(lambda x, y: (x, y + 1), inputs=[(3,), (3,)], input_names=["a", "b"], output_names=["c", "d"]); print(names(m)); bad += names(m) != (["a", "b"], ["c", "d"])
onnx.checker.check_model(m, full_check=True)
x = np.arange(3, dtype=np.float32)
s = ort.InferenceSession(m.SerializeToString()); r = s.run(None, {"a": x, "b": x}); bad += not (np.allclose(r[0], x) and np.allclose(r[1], x + 1))
m = to_onnx(lambda x: (jnp.sin(x),) * 2, inputs=[(3,)], output_names=["a", "b"]); print(names(m)); bad += names(m)[1] != ["a", "b"]
s = ort.InferenceSession(m.SerializeToString()); r = s.run(None, {s.get_inputs()[0].name: x}); bad += not (np.allclose(r[0], np.sin(x)) and np.allclose(r[1], np.sin(x)))
f = lambda x: jax.lax.fori_loop(0, 3, lambda i, c: c * 2.0 + 1.0, x)
for kw in ({"output_names": ["fori_body_0/mul_out_0"]}, {"input_names": ["fori_body_0/mul_out_0"]}):
    try:
        m = to_onnx(f, inputs=[(3,)], **kw); print("accepted", kw, names(m)); bad += 1
    except ValueError as e:
        print("rejected", kw, str(e)[:80])
raise SystemExit(int(bad > 0))
