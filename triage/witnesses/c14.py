import warnings; warnings.filterwarnings("ignore")
import logging; logging.disable(logging.CRITICAL)
import sys, hashlib, numpy as np, jax.numpy as jnp
from jax2onnx import to_onnx, onnx_function
@onnx_function
def inner(x, *, alpha=1.0, beta=2.0, gamma=3.0, delta=4.0):
    return x * alpha + beta - gamma * delta
def outer(x, **kw):
    return inner(x)
m = to_onnx(outer, [(3,)], input_params={"alpha": 1.5, "beta": 0.5, "gamma": 2.0, "delta": 1.0})
b = m.SerializeToString(deterministic=True)
print(hashlib.sha1(b).hexdigest()[:12], [i.name for i in m.graph.input], [list(f.input) for f in m.functions])
