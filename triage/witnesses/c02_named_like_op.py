"""User @onnx_function blocks named like standard operators must not be rewritten as those operators."""
import numpy as np, jax, jax.numpy as jnp, sys
from jax2onnx import to_onnx, onnx_function
import onnxruntime as ort
rng = np.random.default_rng(0); bad = 0
def run(fn, xs, **kw):
    m = to_onnx(fn, [jax.ShapeDtypeStruct(x.shape, x.dtype) for x in xs], **kw)
    s = ort.InferenceSession(m.SerializeToString(), providers=["CPUExecutionProvider"])
    return s.run(None, {i.name: x for i, x in zip(s.get_inputs(), xs)})[0], [n.op_type for n in m.graph.node]
@onnx_function
def Add(a, b):            # not an addition: a matrix product
    return a @ b
@onnx_function
def Sigmoid(v):
    return jnp.tanh(v) + 1.0
x = rng.standard_normal((3, 3)).astype(np.float32); y = rng.standard_normal((3, 3)).astype(np.float32)
cases = {
 "transposes around a block named Add": (lambda x, y: jnp.transpose(Add(jnp.transpose(x), jnp.transpose(y))), [x, y], {}),
 "x * block named Sigmoid (opset 24)": (lambda x: x * Sigmoid(x), [x], {"opset": 24}),
}
for nm, (f, xs, kw) in cases.items():
    ref = np.asarray(f(*xs))
    try:
        got, ops = run(f, xs, **kw)
        ok = got.shape == ref.shape and np.allclose(got, ref, atol=1e-5); print(nm, ops, ok); bad += not ok
    except Exception as e:
        print(nm, "ERR", type(e).__name__, str(e)[:120]); bad += 1
raise SystemExit(int(bad > 0))
