"""jax.checkpoint caches the traced body per function object.  A trace made while jax2onnx's substitutes are installed
stays in that cache after to_onnx returns (C13: the plain JAX function is broken afterwards), and a trace made before
to_onnx is replayed inside it (C14: the export depends on whether the function ran before).
Run: PYTHONPATH=/repo /venv/bin/python triage/witnesses/c13_trace_cache_leak.py"""
import logging; logging.disable(logging.CRITICAL)
import numpy as np, jax, jax.numpy as jnp
from jax2onnx import to_onnx
x = np.arange(6, dtype=np.float32).reshape(2, 3)
bad = 0
g = jax.checkpoint(lambda v: jnp.concatenate([v, v * 2], axis=0)); f = lambda z: g(z)
to_onnx(f, [(2, 3)])
try:
    f(jnp.asarray(x)); print("C13 eager call after export: ok")
except Exception as e:
    bad += 1; print("C13 eager call after export raises", type(e).__name__, str(e)[:90])
g2 = jax.checkpoint(lambda v: jax.nn.softmax(v, axis=-1)); f2 = lambda z: g2(z)
ops_fresh = [n.op_type for n in to_onnx(f2, [(2, 3)]).graph.node]
g3 = jax.checkpoint(lambda v: jax.nn.softmax(v, axis=-1)); f3 = lambda z: g3(z)
f3(jnp.asarray(x))
ops_after_eager = [n.op_type for n in to_onnx(f3, [(2, 3)]).graph.node]
print("C14 export fresh:", ops_fresh, "| after an eager run:", ops_after_eager)
bad += ops_fresh != ops_after_eager
raise SystemExit(1 if bad else 0)
