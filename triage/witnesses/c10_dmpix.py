import numpy as np, jax, dm_pix as pix
from jax2onnx import to_onnx
import onnxruntime as ort
rng = np.random.default_rng(0); bad = 0
for name, shape in (("depth_to_space", (2, 2, 2, 8)), ("space_to_depth", (4, 4, 4, 2)), ("depth_to_space", (2, 2, 2, 2, 8))):
  for ia in (0, 1):
    x = rng.normal(size=shape).astype(np.float32)
    f = lambda x, name=name: jax.vmap(lambda y: getattr(pix, name)(y, 2), in_axes=ia)(x)
    ref = np.asarray(f(x))
    try:
        m = to_onnx(f, [jax.ShapeDtypeStruct(x.shape, x.dtype)])
        s = ort.InferenceSession(m.SerializeToString()); got = s.run(None, {s.get_inputs()[0].name: x})[0]
        ok = got.shape == ref.shape and np.allclose(got, ref); print(name, shape, ia, ok); bad += not ok
    except BaseException as e:
        print(name, shape, ia, "ERR", type(e).__name__, str(e)[:100]); bad += 1
raise SystemExit(int(bad > 0))
