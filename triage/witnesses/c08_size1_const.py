import numpy as np, jax, jax.numpy as jnp
from jax2onnx import to_onnx
import onnxruntime as ort
bad = 0
for nm, f in (("maximum", lambda x: jnp.maximum(x, np.ones((1, 1), np.float32))), ("add", lambda x: x + np.full((1, 1), 2.0, np.float32)), ("scalar1d", lambda x: x * np.asarray([2.0], np.float32))):
    m = to_onnx(f, [jax.ShapeDtypeStruct((3,), np.float32)])
    decl = [d.dim_value for d in m.graph.output[0].type.tensor_type.shape.dim]
    s = ort.InferenceSession(m.SerializeToString()); got = s.run(None, {s.get_inputs()[0].name: np.arange(3, dtype=np.float32)})[0]
    ok = list(got.shape) == decl and got.shape == np.asarray(f(np.arange(3, dtype=np.float32))).shape; print(nm, decl, got.shape, ok); bad += not ok
raise SystemExit(int(bad > 0))
