import numpy as np, jax
from jax import lax
from jax2onnx import to_onnx
import onnxruntime as ort
rng = np.random.default_rng(0)
bad=0
for lc in (0,1):
  for rc in (0,1):
    a = rng.standard_normal((3,4) if lc==1 else (4,3)).astype(np.float32); b = rng.standard_normal((4,5) if rc==0 else (5,4)).astype(np.float32)
    f = lambda a, b: lax.dot_general(a, b, (((lc,), (rc,)), ((), ())))
    m = to_onnx(f, [jax.ShapeDtypeStruct(a.shape, a.dtype), jax.ShapeDtypeStruct(b.shape,b.dtype)])
    s = ort.InferenceSession(m.SerializeToString(), providers=["CPUExecutionProvider"])
    got = s.run(None, {i.name: v for i, v in zip(s.get_inputs(), [a,b])})[0]
    d=np.abs(got-np.asarray(f(a,b))).max(); print(lc,rc,[n.op_type for n in m.graph.node],d); bad+= d>1e-5
raise SystemExit(int(bad>0))
