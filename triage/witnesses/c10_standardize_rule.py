import numpy as np, jax, jax.numpy as jnp
import jax2onnx
from jax2onnx.plugins.jax.nn.standardize import StandardizePlugin
import inspect
x = np.random.default_rng(0).standard_normal((3, 4, 5)).astype(np.float32)
for axis in (0, 1, -1):
    f = lambda v: StandardizePlugin._PRIM.bind(v, axis=(axis,), epsilon=1e-5)
    try:
        got = np.asarray(jax.vmap(f)(x)); ref = np.asarray(jax.vmap(lambda v: jax.nn.standardize(v, axis=axis))(x))
        print(axis, got.shape, float(np.abs(got-ref).max()))
    except Exception as e:
        print(axis, "ERR", type(e).__name__, str(e)[:200])
