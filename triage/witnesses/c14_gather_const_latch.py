import hashlib, sys
import numpy as np
import jax, jax.numpy as jnp
from jax import lax
import onnx
from jax2onnx import to_onnx

BASE = np.array([[0], [2]], dtype=np.int32)

def f(x):
    idx = lax.add(jnp.asarray(BASE), np.int32(1))
    dn = lax.GatherDimensionNumbers(offset_dims=(1,), collapsed_slice_dims=(0,), start_index_map=(0,))
    return lax.gather(x, idx, dn, slice_sizes=(1, 4), mode=lax.GatherScatterMode.PROMISE_IN_BOUNDS)

def export():
    return to_onnx(f, [(5, 4)], model_name="m")

def digest(m):
    return hashlib.sha256(m.SerializeToString(deterministic=True)).hexdigest()

print(jax.make_jaxpr(f)(jnp.zeros((5,4))))
a = export(); b = export()
print(digest(a)); print(digest(b))
print([n.op_type for n in a.graph.node])
print([n.op_type for n in b.graph.node])
sys.exit(0 if digest(a)==digest(b) else 1)
