import numpy as np, jax, jax.numpy as jnp, equinox as eqx
from jax2onnx import to_onnx
import onnxruntime as ort
key = jax.random.PRNGKey(0)
x = np.random.default_rng(0).standard_normal((4, 4)).astype(np.float32); bad = 0
mods = {"layer_norm": eqx.nn.LayerNorm(4), "linear": eqx.nn.Linear(4, 4, key=key), "rms_norm": eqx.nn.RMSNorm(4)}
for nm, mod in mods.items():
  for ia in (0, 1):
    g = lambda x: jax.vmap(mod, in_axes=ia)(x)
    ref = np.asarray(g(x))
    try:
        m = to_onnx(g, [jax.ShapeDtypeStruct(x.shape, x.dtype)])
        s = ort.InferenceSession(m.SerializeToString(), providers=["CPUExecutionProvider"])
        got = s.run(None, {s.get_inputs()[0].name: x})[0]
    except Exception as e:
        print(nm, ia, "ERR", type(e).__name__, str(e)[:100]); bad += 1; continue
    ok = got.shape == ref.shape and np.allclose(got, ref, atol=1e-4); print(nm, ia, got.shape, ref.shape, ok, float(np.abs(got-ref).max()) if got.shape==ref.shape else None); bad += not ok
raise SystemExit(int(bad > 0))
