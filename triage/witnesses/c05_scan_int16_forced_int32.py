import logging; logging.disable(logging.CRITICAL)
import numpy as np, jax, jax.numpy as jnp, onnx
from jax import lax
from jax2onnx import to_onnx
import onnxruntime as ort
def f(c0, xs):
    def body(c, x):
        c2 = c + x
        return c2, c2
    carry, ys = lax.scan(body, c0, xs)
    return carry * jnp.int16(2), ys
specs=[jax.ShapeDtypeStruct((3,),jnp.int16), jax.ShapeDtypeStruct((4,3),jnp.int16)]
m=to_onnx(f,specs)
print([(o.name,o.type.tensor_type.elem_type) for o in m.graph.output])
try:
    s=ort.InferenceSession(m.SerializeToString()); a=np.ones(3,np.int16); b=np.ones((4,3),np.int16)
    print([o.dtype for o in s.run(None,{i.name:v for i,v in zip(s.get_inputs(),(a,b))})], [np.asarray(o).dtype for o in f(a,b)])
except Exception as e: print(type(e).__name__, str(e)[:200])
