"""Module substitutes that never read the module's `dtype` (computation dtype): the library casts operands and parameters to it,
the export computes and returns float32 (R-C19n).  Prints one line per module; exit 1 when any export's result type differs."""
import logging; logging.disable(logging.CRITICAL)
import numpy as np, jax, jax.numpy as jnp, onnx
from flax import nnx, linen as nn
from jax2onnx import to_onnx
rs = np.random.RandomState(0)
x = rs.randn(2, 4).astype(np.float32)
def out_type(m): return onnx.TensorProto.DataType.Name(m.graph.output[0].type.tensor_type.elem_type)
bad = 0
cases = [("flax.nnx.Linear", lambda: nnx.Linear(4, 3, dtype=jnp.float16, rngs=nnx.Rngs(0)), x),
         ("flax.nnx.LinearGeneral", lambda: nnx.LinearGeneral(4, 3, dtype=jnp.float16, rngs=nnx.Rngs(0)), x),
         ("flax.nnx.LayerNorm", lambda: nnx.LayerNorm(4, dtype=jnp.float16, rngs=nnx.Rngs(0)), x),
         ("flax.nnx.PReLU", lambda: nnx.PReLU(dtype=jnp.float16), x),
         ("flax.nnx.Embed", lambda: nnx.Embed(5, 3, dtype=jnp.float16, rngs=nnx.Rngs(0)), np.array([1, 2], np.int32)),
         ("flax.nnx.BatchNorm", lambda: nnx.BatchNorm(4, dtype=jnp.float16, use_running_average=True, rngs=nnx.Rngs(0)), x)]
for name, mk, inp in cases:
    mod = mk(); exp = mod(inp)
    m = to_onnx(lambda a: mod(a), [jax.ShapeDtypeStruct(inp.shape, inp.dtype)])
    print(name, "jax", exp.dtype, "onnx", out_type(m)); bad += out_type(m) != "FLOAT16"
for name, mk in [("flax.linen.Dense", lambda: nn.Dense(3, dtype=jnp.float16)), ("flax.linen.DenseGeneral", lambda: nn.DenseGeneral(3, dtype=jnp.float16)),
                 ("flax.linen.LayerNorm", lambda: nn.LayerNorm(dtype=jnp.float16))]:
    mod = mk(); v = mod.init(jax.random.PRNGKey(0), x); exp = mod.apply(v, x)
    m = to_onnx(lambda a: mod.apply(v, a), [jax.ShapeDtypeStruct(x.shape, x.dtype)])
    print(name, "jax", exp.dtype, "onnx", out_type(m)); bad += out_type(m) != "FLOAT16"
raise SystemExit(1 if bad else 0)
