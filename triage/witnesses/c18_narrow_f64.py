import os, tempfile, numpy as np, onnx, jax.numpy as jnp
from onnx import helper, TensorProto as TP
from jax2onnx import allclose
def h(x): return x * jnp.float32(1e30)
nodes = [helper.make_node("Cast", ["x"], ["xd"], to=TP.DOUBLE),
         helper.make_node("Constant", [], ["c"], value=helper.make_tensor("c", TP.DOUBLE, [], [1e30])),
         helper.make_node("Mul", ["xd", "c"], ["y"])]
g = helper.make_graph(nodes, "g", [helper.make_tensor_value_info("x", TP.FLOAT, [2])], [helper.make_tensor_value_info("y", TP.DOUBLE, [2])])
m = helper.make_model(g, opset_imports=[helper.make_opsetid("", 17)]); m.ir_version = 8
p = os.path.join(tempfile.mkdtemp(), "b.onnx"); onnx.save(m, p)
r = allclose(h, p, [np.array([1e10, 1.0], np.float32)]); print(r)
raise SystemExit(int(bool(r[0])))
