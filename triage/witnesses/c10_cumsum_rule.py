import numpy as np, jax, jax.numpy as jnp
import jax2onnx
from jax2onnx.plugins.jax.numpy.cumsum import JnpCumSumPlugin
x = np.arange(12, dtype=np.float32).reshape(2, 2, 3)
f = lambda v: JnpCumSumPlugin._PRIM.bind(v, axis=None, dtype=None, reverse=True, precision=None, exclusive=False)
per_example = np.stack([np.asarray(f(x[i])) for i in range(2)])
batched = np.asarray(jax.vmap(f)(x))
print(per_example.shape, batched.shape, np.array_equal(per_example, batched)); print(per_example[0]); print(batched[0])
