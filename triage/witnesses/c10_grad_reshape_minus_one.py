"""jax.grad / jax.jvp through jnp.reshape(v, (-1, 2)): the substitute bound the raw -1 and the forwarded lax.reshape_p rules
re-bound lax.reshape_p with it -> TypeError, although the plain export works (seeded/C10h/notes.md observation 1)."""
import logging; logging.disable(logging.CRITICAL)
import numpy as np, jax, jax.numpy as jnp
from jax2onnx import to_onnx
import onnxruntime as ort
x = np.arange(6, dtype=np.float32).reshape(2, 3)
bad = 0
for name, f in [("grad", jax.grad(lambda v: (jnp.reshape(v, (-1, 2)) * jnp.arange(2.0)).sum())),
                ("jvp", lambda v: jax.jvp(lambda a: jnp.reshape(a, (-1,)) * 3.0, (v,), (v,))[1]),
                ("plain", lambda v: jnp.reshape(v, (-1, 2)))]:
    try:
        m = to_onnx(f, [jax.ShapeDtypeStruct((2, 3), np.float32)])
        got = ort.InferenceSession(m.SerializeToString()).run(None, {"in_0": x})[0]
        ok = np.allclose(got, np.asarray(f(x))); print(name, "OK" if ok else "MISMATCH")
    except Exception as e:  # noqa: BLE001
        ok = False; print(name, "FAILED", type(e).__name__, str(e)[:90])
    bad += not ok
raise SystemExit(1 if bad else 0)
