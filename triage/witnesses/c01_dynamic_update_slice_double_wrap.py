"""lax.dynamic_update_slice normalises a negative start (idx + dim) before binding the primitive, whose semantics is a clamp;
the lowering wrapped a still-negative start a second time: idx = -7 on an axis of 5 writes at offset 3 instead of 0
(seeded/C11h/notes.md observation 5).  Same check for lax.dynamic_slice."""
import logging; logging.disable(logging.CRITICAL)
import numpy as np, jax, jax.numpy as jnp
from jax2onnx import to_onnx
import onnxruntime as ort
ref = np.zeros((2, 5, 3), np.float32); upd = np.ones((2, 2, 3), np.float32)
bad = 0
f = lambda r, u, i: jax.lax.dynamic_update_slice(r, u, (0, i, 0))
g = lambda r, i: jax.lax.dynamic_slice(r, (0, i, 0), (2, 2, 3))
base = np.arange(30, dtype=np.float32).reshape(2, 5, 3)
for opset in (23, 24):
    m = to_onnx(f, [(2, 5, 3), (2, 2, 3), jax.ShapeDtypeStruct((), np.int32)], opset=opset)
    s = ort.InferenceSession(m.SerializeToString())
    m2 = to_onnx(g, [(2, 5, 3), jax.ShapeDtypeStruct((), np.int32)], opset=opset)
    s2 = ort.InferenceSession(m2.SerializeToString())
    for idx in (-7, -6, -5, -2, 0, 3, 4, 9):
        i = np.asarray(idx, np.int32)
        got = s.run(None, dict(zip([x.name for x in s.get_inputs()], [ref, upd, i])))[0]
        exp = np.asarray(f(ref, upd, i))
        got2 = s2.run(None, dict(zip([x.name for x in s2.get_inputs()], [base, i])))[0]
        exp2 = np.asarray(g(base, i))
        ok = np.array_equal(got, exp) and np.array_equal(got2, exp2)
        if not ok:
            print("opset", opset, "idx", idx, "update rows jax", np.nonzero(exp[0, :, 0])[0].tolist(), "onnx", np.nonzero(got[0, :, 0])[0].tolist(), "| slice equal:", np.array_equal(got2, exp2))
        bad += not ok
print("mismatches", bad)
raise SystemExit(1 if bad else 0)
