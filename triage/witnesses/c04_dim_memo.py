import jax, jax.numpy as jnp, numpy as np
from jax2onnx import to_onnx
import onnxruntime as ort
def f(x):
    n = x.shape[0]
    return (x.sum()*0 + 2*n), (x.sum()*0 + n*n)
m = to_onnx(f, [("a",)], return_mode="proto")
s = ort.InferenceSession(m.SerializeToString())
for k in (1,2,3,5):
    x = np.ones((k,), np.float32)
    print(k, [float(v) for v in s.run(None, {s.get_inputs()[0].name: x})], "expected", 2*k, k*k)
def g(x):
    n = x.shape[0]
    return (x.sum()*0 + n*n), (x.sum()*0 + 2*n)
m = to_onnx(g, [("a",)], return_mode="proto")
s = ort.InferenceSession(m.SerializeToString())
for k in (1,2,3,5):
    x = np.ones((k,), np.float32)
    print(k, [float(v) for v in s.run(None, {s.get_inputs()[0].name: x})], "expected", k*k, 2*k)
