"""A keyword argument of an @onnx_function call whose NAME equals an input_params name is wired to that graph input
whatever value was passed (seeded/C07h/notes.md S2): blk(x, scale=scale + 1.0) is exported as x * scale."""
import logging; logging.disable(logging.CRITICAL)
import numpy as np, jax, jax.numpy as jnp
from jax2onnx import to_onnx, onnx_function
import onnxruntime as ort

@onnx_function
def blk(x, scale=1.0):
    return x * scale

def model(x, scale):
    return blk(x, scale=scale + 1.0)

x = np.arange(4, dtype=np.float32)
m = to_onnx(model, [(4,)], input_params={"scale": 2.0})
s = ort.InferenceSession(m.SerializeToString())
feeds = {i.name: (x if i.name != "scale" else np.asarray(2.0, np.float32)) for i in s.get_inputs()}
got = s.run(None, feeds)[0]
ref = np.asarray(model(x, 2.0))
print("onnx", got, "jax", ref)
raise SystemExit(0 if np.allclose(got, ref) else 1)
