import numpy as np, jax, jax.numpy as jnp, tempfile, os
from jax2onnx import to_onnx, allclose
d = tempfile.mkdtemp()
def export(f, spec, name):
    p = os.path.join(d, name + ".onnx"); to_onnx(f, inputs=spec, return_mode="file", output_path=p); return p
x = np.array([1, 2, 1000], np.int32)
p_float = export(lambda a: a.astype(jnp.float32) + jnp.array([0., 0., 0.9], jnp.float32), [jax.ShapeDtypeStruct((3,), jnp.int32)], "floaty")
print("int fn vs float model:", allclose(lambda a: a, p_float, [x]))
p_same = export(lambda a: a + 0, [jax.ShapeDtypeStruct((3,), jnp.int32)], "inty")
print("int fn vs int model  :", allclose(lambda a: a + 0, p_same, [x]))
pf = export(lambda a: a * 2.0, [(3,)], "f")
print("float fn vs float    :", allclose(lambda a: a * 2.0, pf, [np.ones(3, np.float32)]))
