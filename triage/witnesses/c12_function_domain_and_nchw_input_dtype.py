"""Reproducers for behaviour of the UNMODIFIED checkout that already violates C12.
Run: cd /tmp/wt4/C12 && PYTHONPATH=/tmp/wt4/C12 /venv/bin/python _seed/side_observations.py
"""
import logging
import numpy as np, onnxruntime as ort
import jax, jax.numpy as jnp
from jax2onnx import to_onnx, onnx_function

logging.disable(logging.WARNING)
P = (0, 3, 1, 2)


def sess(m):
    so = ort.SessionOptions(); so.log_severity_level = 3
    return ort.InferenceSession(m.SerializeToString(), so, providers=["CPUExecutionProvider"])


# --- 1. custom-domain function whose op_type collides with an elementwise op name
@onnx_function(type="Abs")
def channel_softmax(x):
    return jax.nn.softmax(x, axis=-1)


def f1(x):
    return channel_softmax(x)


x = np.random.default_rng(0).standard_normal((2, 4, 5, 3)).astype(np.float32)
plain = to_onnx(f1, inputs=[(2, 4, 5, 3)])
flag = to_onnx(f1, inputs=[(2, 4, 5, 3)], inputs_as_nchw=[0], outputs_as_nchw=[0])
print("1. nodes of flagged export:", [(n.domain, n.op_type) for n in flag.graph.node])
ref = sess(plain).run(None, {plain.graph.input[0].name: x})[0]
got = sess(flag).run(None, {flag.graph.input[0].name: np.transpose(x, P)})[0]
print("1. flagged == NCHW(plain)?", np.allclose(np.transpose(ref, P), got, atol=1e-5),
      "max err", float(np.abs(np.transpose(ref, P) - got).max()))


# --- 2. enable_double_precision=True with an explicit float32 input spec
def f2(x):
    return x * 2.0


sds = [jax.ShapeDtypeStruct((2, 4, 5, 3), jnp.float32)]
for kw in ({}, {"inputs_as_nchw": [0]}, {"inputs_as_nchw": [0], "outputs_as_nchw": [0]}):
    m = to_onnx(f2, inputs=sds, enable_double_precision=True, **kw)
    print("2.", kw, "input elem_type", [i.type.tensor_type.elem_type for i in m.graph.input],
          "output elem_type", [o.type.tensor_type.elem_type for o in m.graph.output])
