"""jnp.outer(int32, float32) in a single-precision export: abstract_eval promotes with NumPy's lattice (float64)."""
import logging; logging.disable(logging.CRITICAL)
import numpy as np, jax, jax.numpy as jnp, onnx
from jax2onnx import to_onnx
f = lambda a, b: jnp.outer(a, b)
m = to_onnx(f, [jax.ShapeDtypeStruct((3,), jnp.int32), jax.ShapeDtypeStruct((2,), jnp.float32)])
outs = [o.type.tensor_type.elem_type for o in m.graph.output]
dbl = [n.op_type for n in m.graph.node for a in n.attribute if a.name == "to" and a.i == onnx.TensorProto.DOUBLE]
print("output elem types", outs, "casts to DOUBLE", dbl, "jax", f(np.ones(3, np.int32), np.ones(2, np.float32)).dtype)
raise SystemExit(1 if (onnx.TensorProto.DOUBLE in outs or dbl) else 0)
