import warnings; warnings.filterwarnings("ignore")
import numpy as np, onnx_ir as ir, onnx, onnxruntime as ort
from jax2onnx.converter.ir_optimizations import optimize_graph
def V(name, shape, dt=ir.DataType.FLOAT): return ir.Value(name=name, shape=ir.Shape(shape), type=ir.TensorType(dt))
def init(name, arr): return ir.Value(name=name, shape=ir.Shape(arr.shape), type=ir.TensorType(ir.DataType.from_numpy(arr.dtype)), const_value=ir.tensor(arr))
def node(op, ins, outs, **attrs): return ir.Node("", op, inputs=ins, outputs=outs, attributes=ir.convenience.convert_attributes(attrs), name=op+"_"+outs[0].name)
X=V("x",(2,3)); ratio=init("ratio",np.array(0.5,np.float32)); t=init("t",np.array(True)); 
n1=V("n1",(),ir.DataType.BOOL); n2=V("n2",(),ir.DataType.BOOL); d1=V("d1",(2,3)); d2=V("d2",(2,3))
g=ir.Graph(inputs=[X],outputs=[d2],nodes=[node("Not",[t],[n1]),node("Dropout",[X,ratio,n1],[d1]),node("Not",[t],[n2]),node("Dropout",[d1,ratio,n2],[d2])],initializers=[ratio,t],name="g",opset_imports={"":21})
m=ir.Model(g,ir_version=10)
optimize_graph(m)
p=ir.to_proto(m)
print([ (n.op_type,list(n.input)) for n in p.graph.node], [i.name for i in p.graph.initializer])
try:
    onnx.checker.check_model(p, full_check=True); print("checker ok")
except Exception as e: print("checker FAIL", str(e)[:200])
try:
    s=ort.InferenceSession(p.SerializeToString()); print("ort ok", s.run(None,{"x":np.ones((2,3),np.float32)})[0].shape)
except Exception as e: print("ORT FAIL", str(e)[:200])
