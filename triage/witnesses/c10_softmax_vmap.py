import numpy as np, jax, jax.numpy as jnp
from jax2onnx import to_onnx
import onnxruntime as ort
rng = np.random.default_rng(0); bad = 0
x = rng.standard_normal((2, 3, 4)).astype(np.float32)
for in_axis in (0, 1, 2):
    for axis in (-2, -1, 0, 1):
        g = lambda x: jax.vmap(lambda v: jax.nn.softmax(v, axis=axis), in_axes=in_axis)(x)
        m = to_onnx(g, [jax.ShapeDtypeStruct(x.shape, x.dtype)])
        s = ort.InferenceSession(m.SerializeToString(), providers=["CPUExecutionProvider"])
        got = s.run(None, {s.get_inputs()[0].name: x})[0]
        d = np.abs(got - np.asarray(g(x))).max(); print(in_axis, axis, d); bad += d > 1e-5
raise SystemExit(int(bad > 0))
