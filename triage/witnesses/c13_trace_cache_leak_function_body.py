import logging; logging.disable(logging.CRITICAL)
import numpy as np, jax, jax.numpy as jnp
from jax2onnx import to_onnx, onnx_function
x = np.arange(6, dtype=np.float32).reshape(2, 3)
g = jax.checkpoint(lambda v: jnp.concatenate([v, v * 2], axis=0))
@onnx_function
def blk(z): return g(z) + 1.0
m = to_onnx(lambda z: blk(z), [(2, 3)])
print([n.op_type for n in m.graph.node], [f.name for f in m.functions])
try:
    print(np.asarray(g(jnp.asarray(x))).shape, "eager ok")
except Exception as e: print("eager raises", type(e).__name__, str(e)[:80])
