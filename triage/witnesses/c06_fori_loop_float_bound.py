"""lax.fori_loop(0, 2.5, body, x) is a TypeError in JAX; under to_onnx the substitute truncated 2.5 to 2 and returned a model
(seeded/C16h/notes.md observation 3)."""
import logging; logging.disable(logging.CRITICAL)
import numpy as np, jax, jax.numpy as jnp
from jax2onnx import to_onnx
f = lambda x: jax.lax.fori_loop(0, 2.5, lambda i, c: c * 2, x)
try:
    jax.make_jaxpr(f)(np.ones(3, np.float32)); print("JAX accepts?!")
except TypeError as e:
    print("JAX:", str(e)[:80])
try:
    to_onnx(f, [(3,)]); print("to_onnx returned a model"); raise SystemExit(1)
except TypeError as e:
    print("to_onnx:", str(e)[:90]); raise SystemExit(0)
