import numpy as np, jax, jax.numpy as jnp
from jax import lax
from jax2onnx import to_onnx
import onnxruntime as ort
p = np.asarray([[1.0, 2.0, 3.0], [4.0, 5.0, 6.0]], np.float32)
f = lambda a: lax.reshape(a, (3, 2), dimensions=(1, 0))
m = to_onnx(f, inputs=[jax.ShapeDtypeStruct(p.shape, p.dtype)])
s = ort.InferenceSession(m.SerializeToString())
got = s.run(None, {s.get_inputs()[0].name: p})[0]
print([n.op_type for n in m.graph.node]); print("onnx", got.tolist()); print("jax ", np.asarray(f(p)).tolist())
