"""Pooling over a SYMBOLIC spatial axis: the substitutes' abstract_eval returned the input symbol unchanged for the pooled
axis, so the output was declared `H` although its run-time size is H/2 (seeded/C08h/notes.md observation 2)."""
import logging; logging.disable(logging.CRITICAL)
import numpy as np, jax, jax.numpy as jnp
from flax import nnx
from jax2onnx import to_onnx
import onnxruntime as ort
f = lambda x: nnx.max_pool(x, window_shape=(2, 2), strides=(2, 2), padding="VALID")
m = to_onnx(f, [("B", "H", 8, 3)])
decl = [[(d.dim_param or d.dim_value) for d in o.type.tensor_type.shape.dim] for o in m.graph.output]
s = ort.InferenceSession(m.SerializeToString())
x = np.zeros((2, 6, 8, 3), np.float32)
got = s.run(None, {s.get_inputs()[0].name: x})[0].shape
inp = [[(d.dim_param or d.dim_value) for d in i.type.tensor_type.shape.dim] for i in m.graph.input]
print("input", inp, "declared output", decl, "runtime", got)
same_symbol = decl[0][1] == inp[0][1]
raise SystemExit(1 if same_symbol and got[1] != x.shape[1] else 0)
