import numpy as np, jax, jax.numpy as jnp
from jax2onnx import to_onnx
import onnxruntime as ort
rng = np.random.default_rng(0); bad = 0
def check(nm, g, *xs):
    global bad
    ref = np.asarray(g(*xs))
    try:
        m = to_onnx(g, [jax.ShapeDtypeStruct(x.shape, x.dtype) for x in xs])
        s = ort.InferenceSession(m.SerializeToString(), providers=["CPUExecutionProvider"])
        got = s.run(None, {i.name: x for i, x in zip(s.get_inputs(), xs)})[0]
    except Exception as e:
        print(nm, "ERR", type(e).__name__, str(e)[:120]); bad += 1; return
    ok = got.shape == ref.shape and np.allclose(got, ref, atol=1e-4); print(nm, got.shape, ref.shape, ok); bad += not ok
x = rng.standard_normal((3, 3, 3)).astype(np.float32); y = rng.standard_normal((3, 3, 3)).astype(np.float32)
check("standardize axis=0", lambda x: jax.vmap(lambda v: jax.nn.standardize(v, axis=0))(x), x)
check("standardize axis=-1", lambda x: jax.vmap(lambda v: jax.nn.standardize(v, axis=-1))(x), x)
check("standardize axis=-1 in_axes=2", lambda x: jax.vmap(lambda v: jax.nn.standardize(v, axis=-1), in_axes=2)(x), x)
v = rng.standard_normal((3, 3)).astype(np.float32); w = rng.standard_normal((3, 3)).astype(np.float32)
check("dot vec.vec both batched", lambda a, b: jax.vmap(lambda p, q: jnp.dot(p, q))(a, b), v, w)
check("dot mat.mat both batched", lambda a, b: jax.vmap(lambda p, q: jnp.dot(p, q))(a, b), x, y)
check("dot mat.mat rhs batched", lambda a, b: jax.vmap(lambda q: jnp.dot(a, q))(b), v, y)
check("matmul vec.vec both batched", lambda a, b: jax.vmap(lambda p, q: jnp.matmul(p, q))(a, b), v, w)
check("matmul mat.vec rhs batched", lambda a, b: jax.vmap(lambda q: jnp.matmul(a, q))(b), v, w)
raise SystemExit(int(bad > 0))
