"""Complex tensors at the model interface that no plugin packed: an unused complex input stayed COMPLEX64, a complex constant
result leaf was declared FLOAT [.., 2] over a COMPLEX64 payload (seeded/C05h/notes.md observations 1 and 2)."""
import logging; logging.disable(logging.CRITICAL)
import numpy as np, jax, jax.numpy as jnp, onnx
from jax2onnx import to_onnx
import onnxruntime as ort
bad = 0
def decl(vs):
    return [(v.name, onnx.TensorProto.DataType.Name(v.type.tensor_type.elem_type), [d.dim_param or d.dim_value for d in v.type.tensor_type.shape.dim]) for v in vs]
m = to_onnx(lambda z, x: x * 2, [jax.ShapeDtypeStruct((3,), jnp.complex64), (3,)])
print("inputs", decl(m.graph.input))
ok = decl(m.graph.input)[0][1:] == ("FLOAT", [3, 2])
try:
    s = ort.InferenceSession(m.SerializeToString())
    out = s.run(None, {"in_0": np.zeros((3, 2), np.float32), "in_1": np.arange(3, dtype=np.float32)})[0]
    ok = ok and np.allclose(out, [0, 2, 4])
except Exception as e:  # noqa: BLE001
    ok = False; print("ORT:", str(e)[:120])
bad += not ok
for fn, want in [(lambda x: (x, jnp.asarray(1j, dtype=jnp.complex64)), np.array([0, 1], np.float32)),
                 (lambda x: (x, np.array([1j, 2], dtype=np.complex64)), np.array([[0, 1], [2, 0]], np.float32))]:
    m = to_onnx(fn, [(3,)])
    print("outputs", decl(m.graph.output), "initializers", [(i.name, onnx.TensorProto.DataType.Name(i.data_type), list(i.dims)) for i in m.graph.initializer])
    try:
        s = ort.InferenceSession(m.SerializeToString())
        out = s.run(None, {"in_0": np.zeros(3, np.float32)})
        ok = np.array_equal(out[1], want)
    except Exception as e:  # noqa: BLE001
        ok = False; print("ORT:", str(e)[:120])
    bad += not ok
raise SystemExit(1 if bad else 0)
