import numpy as np, jax, jax.numpy as jnp, sys
from jax2onnx import to_onnx
import onnxruntime as ort
x = np.random.default_rng(0).standard_normal((2, 3, 4)).astype(np.float32); bad = 0
cases = {
 "argmax-1": lambda v: jnp.argmax(v, axis=-1), "argmin-1": lambda v: jnp.argmin(v, axis=-1), "argmin-2": lambda v: jnp.argmin(v, axis=-2),
 "cumsumNone": lambda v: jnp.cumsum(v, axis=None), "cumsum-1": lambda v: jnp.cumsum(v, axis=-1), "cumsum0": lambda v: jnp.cumsum(v, axis=0),
}
for nm, fn in cases.items():
    g = lambda x: jax.vmap(fn)(x)
    ref = np.asarray(g(x))
    try:
        m = to_onnx(g, [jax.ShapeDtypeStruct(x.shape, x.dtype)])
        s = ort.InferenceSession(m.SerializeToString(), providers=["CPUExecutionProvider"])
        got = s.run(None, {s.get_inputs()[0].name: x})[0]
    except Exception as e:
        print(nm, "ERR", type(e).__name__, str(e)[:100]); bad += 1; continue
    ok = got.shape == ref.shape and np.allclose(got, ref, atol=1e-5); print(nm, got.shape, ref.shape, ok); bad += not ok
raise SystemExit(int(bad > 0))
