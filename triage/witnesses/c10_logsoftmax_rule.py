import numpy as np, jax, jax.numpy as jnp
import jax2onnx
from jax2onnx.plugins.jax.nn.log_softmax import LogSoftmaxPlugin
x = np.random.default_rng(0).standard_normal((2, 3, 4)).astype(np.float32)
bad = 0
for in_axis in (0, 1, 2):
    for axis in (-2, -1, 0, 1):
        got = jax.vmap(lambda v: LogSoftmaxPlugin._PRIM.bind(v, axis=axis), in_axes=in_axis)(x)
        ref = jax.vmap(lambda v: jax.nn.log_softmax(v, axis=axis), in_axes=in_axis)(x)
        d = float(np.abs(np.asarray(got) - np.asarray(ref)).max()); print(in_axis, axis, d); bad += d > 1e-5
raise SystemExit(int(bad > 0))
