import warnings; warnings.filterwarnings("ignore")
import jax, jax.numpy as jnp, numpy as np, sys, types
from jax2onnx import to_onnx, onnx_function
from flax import nnx
import jax2onnx.plugins.plugin_system as ps

@onnx_function
def good(x): return x + 1
mod = sys.modules[__name__]
orig_good = mod.good

def make():
    @onnx_function
    def local_fn(x):   # not a module attribute -> getattr(mod,'local_fn') raises AttributeError
        return x * 2
    return local_fn
lf = make()
def f(x): return good(lf(x))
try:
    to_onnx(f, [(3,)])
    print("export ok")
except Exception as e:
    print("export raised", type(e).__name__, str(e)[:100])
print("good restored?", mod.good is orig_good, "patch state size", len(ps._PATCH_STATE))
print("eager call after:", end=" ")
try:
    print(mod.good(jnp.ones(3)))
except Exception as e:
    print("RAISES", type(e).__name__, str(e)[:120])
