"""A scatter anywhere in a scan body made ScanPlugin Expand every per-step input to the extent of the scatter's updates:
xs (5,1,3) -> ys exported as (5,2,3); xs (5,3) -> model ORT refuses (seeded/C06h/notes.md observation 1)."""
import logging; logging.disable(logging.CRITICAL)
import numpy as np, jax, jax.numpy as jnp
from jax2onnx import to_onnx
import onnxruntime as ort
def f(xs, upd):
    def body(c, x):
        return c.at[jnp.array([0, 2])].add(upd), x * 2.0
    return jax.lax.scan(body, jnp.zeros((4, 3), np.float32), xs)
bad = 0
for shp in [(5, 1, 3), (5, 3)]:
    xs = np.random.rand(*shp).astype(np.float32); upd = np.random.rand(2, 3).astype(np.float32)
    exp = [np.asarray(a) for a in f(xs, upd)]
    try:
        m = to_onnx(f, [shp, (2, 3)])
        s = ort.InferenceSession(m.SerializeToString())
        got = s.run(None, {i.name: a for i, a in zip(s.get_inputs(), [xs, upd])})
        ok = all(g.shape == e.shape and np.allclose(g, e, atol=1e-5) for g, e in zip(got, exp))
        print(shp, "jax", [e.shape for e in exp], "onnx", [g.shape for g in got], "OK" if ok else "MISMATCH")
    except Exception as e:  # noqa: BLE001
        ok = False; print(shp, "FAILED", str(e)[:120])
    bad += not ok
raise SystemExit(1 if bad else 0)
