import warnings; warnings.filterwarnings("ignore")
import numpy as np, onnx_ir as ir, onnx, onnxruntime as ort
from jax2onnx.converter.ir_optimizations import optimize_graph
def V(name, shape, dt=ir.DataType.FLOAT): return ir.Value(name=name, shape=ir.Shape(shape), type=ir.TensorType(dt))
def node(op, ins, outs, domain="", **attrs): return ir.Node(domain, op, inputs=ins, outputs=outs, attributes=ir.convenience.convert_attributes(attrs), name=op+"_"+outs[0].name)
# function body: T1 -> ReduceMean(axes const node) -> T2
fx=V("fx",(2,3,4,5)); t1=V("t1",(2,4,5,3)); r=V("r",(2,1,5,3)); t2=V("t2",(2,3,1,5)); ax=V("ax",(1,),ir.DataType.INT64)
axn=ir.Node("", "Constant", inputs=[], outputs=[ax], attributes=[ir.AttrTensor("value", ir.tensor(np.array([1],np.int64)))], name="c_ax")
ax.const_value=ir.tensor(np.array([1],np.int64))
fg=ir.Graph(inputs=[fx],outputs=[t2],nodes=[axn,node("Transpose",[fx],[t1],perm=[0,2,3,1]),node("ReduceMean",[t1,ax],[r],keepdims=1),node("Transpose",[r],[t2],perm=[0,3,1,2])],name="F",opset_imports={"":21})
fn=ir.Function(domain="custom", name="F", graph=fg, attributes=[])
X=V("x",(2,3,4,5)); Y=V("y",(2,3,1,5))
g=ir.Graph(inputs=[X],outputs=[Y],nodes=[node("F",[X],[Y],domain="custom")],name="g",opset_imports={"":21,"custom":1})
m=ir.Model(g,ir_version=10,functions=[fn])
x=np.random.rand(2,3,4,5).astype(np.float32)
p0=ir.to_proto(m); r0=ort.InferenceSession(p0.SerializeToString()).run(None,{"x":x})[0]
optimize_graph(m)
print("fn initializers after opt:", list(fn.graph.initializers.keys()), [n.op_type for n in fn.graph])
try:
    p=ir.to_proto(m)
    print([ (n.op_type,list(n.input)) for n in p.functions[0].node])
    onnx.checker.check_model(p, full_check=True); print("checker ok")
    r1=ort.InferenceSession(p.SerializeToString()).run(None,{"x":x})[0]; print("ort ok", np.allclose(r0,r1))
except Exception as e: print("FAIL", type(e).__name__, str(e)[:300])
