"""Axis-0 "loop extent override" contradicting the shape JAX computed (C08 / C06 / C01 family, R-C08i).
Run: PYTHONPATH=/repo /venv/bin/python triage/witnesses/c08_axis0_override_family.py"""
import logging; logging.disable(logging.CRITICAL)
import numpy as np, jax, jax.numpy as jnp
from jax import lax
from jax2onnx import to_onnx
import onnxruntime as ort

def run(f, specs, feeds):
    m = to_onnx(f, specs)
    s = ort.InferenceSession(m.SerializeToString())
    outs = s.run(None, {i.name: v for i, v in zip(s.get_inputs(), feeds)})
    decl = [[(d.dim_value or d.dim_param) for d in o.type.tensor_type.shape.dim] for o in m.graph.output]
    return decl, [o.shape for o in outs], outs

# (a) scan over a symbolic-length sequence: stacked output declared [3,3], runtime (T,3)
def f_scan(xs, c0):
    def body(c, x):
        c2 = c + x
        return c2, jnp.tanh(c2)
    carry, ys = lax.scan(body, c0, xs)
    return carry, ys * 2.0
decl, got, _ = run(f_scan, [("T", 3), (3,)], [np.ones((4, 3), np.float32), np.zeros(3, np.float32)])
print("scan  declared", decl, "runtime", got)

# (b) broadcast_to(concatenate) with a symbolic batch: fixed (5,5) for every B
def f_bc(x, a, b):
    return jnp.broadcast_to(lax.concatenate([a, b], 0), x.shape) + x
try:
    decl, got, outs = run(f_bc, [("B", 5), (2,), (3,)], [np.zeros((2, 5), np.float32), np.ones(2, np.float32), np.ones(3, np.float32)])
    print("bcast declared", decl, "runtime", got, "jax", np.asarray(f_bc(np.zeros((2, 5), np.float32), np.ones(2, np.float32), np.ones(3, np.float32))).shape)
except Exception as e:
    print("bcast", type(e).__name__, str(e)[:200])
