import numpy as np, jax, jax.numpy as jnp
from jax import lax
from jax2onnx import to_onnx
import onnxruntime as ort
def run(fn, args, **kw):
    m = to_onnx(fn, [jax.ShapeDtypeStruct(a.shape, a.dtype) for a in args], **kw)
    s = ort.InferenceSession(m.SerializeToString(), providers=["CPUExecutionProvider"])
    return s.run(None, {i.name: a for i, a in zip(s.get_inputs(), args)})
rng = np.random.default_rng(0)
a = rng.standard_normal((3, 3)).astype(np.float32); b = rng.standard_normal((3, 5)).astype(np.float32)
f = lambda a, b: lax.dot_general(a, b, (((0,), (0,)), ((), ())))
got = run(f, [a, b])[0]; ref = np.asarray(f(a, b))
print("dot_general lhs_contract=0 max diff", np.abs(got - ref).max())
x = rng.standard_normal((2, 3, 4)).astype(np.float32)
g = lambda x: jax.vmap(lambda v: jax.nn.softmax(v, axis=1))(x)
got = run(g, [x])[0]; ref = np.asarray(g(x))
print("vmap softmax axis=1 max diff", np.abs(got - ref).max())
