import numpy as np, jax, jax.numpy as jnp, onnx, sys
sys.path.insert(0,'/tmp/w')
from c09_numpy_promo import doubles
from jax2onnx import to_onnx
xi = jax.ShapeDtypeStruct((4,), jnp.int32); xf = jax.ShapeDtypeStruct((4,), jnp.float32); e = jax.ShapeDtypeStruct((3,), jnp.float32)
for name, f, ins in [("histogram2d", lambda a,b,e1,e2: jnp.histogram2d(a, b, bins=[e1,e2])[0], [xi,xf,e,e]),
                     ("histogramdd", lambda s,e1,e2: jnp.histogramdd(s, bins=[e1,e2])[0], [jax.ShapeDtypeStruct((4,2), jnp.int32), e, e])]:
    try:
        m = to_onnx(f, inputs=ins, model_name=name); d = doubles(m)
        print(("DOUBLE " if d else "clean  ")+name, len(d), d[:2])
    except Exception as ex:
        print("ERR", name, type(ex).__name__, str(ex)[:120])
