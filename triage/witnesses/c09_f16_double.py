import numpy as np, jax, jax.numpy as jnp, onnx
from jax2onnx import to_onnx
import onnxruntime as ort
for name, f in [("relu2", lambda x: jax.nn.relu(x) * 2), ("add", lambda x: x + x), ("mulc", lambda x: x * 0.5)]:
    m = to_onnx(f, inputs=[jax.ShapeDtypeStruct((3,), jnp.float16)], enable_double_precision=True, model_name=name)
    print(name, [n.op_type for n in m.graph.node], "in", m.graph.input[0].type.tensor_type.elem_type, "out", m.graph.output[0].type.tensor_type.elem_type, "inits", [(i.name, i.data_type) for i in m.graph.initializer])
    try:
        onnx.checker.check_model(m, full_check=True); print("   checker ok")
    except Exception as e: print("   CHECKER FAIL", str(e)[:160])
    try:
        s = ort.InferenceSession(m.SerializeToString()); r = s.run(None, {s.get_inputs()[0].name: np.ones(3, np.float16)}); print("   ort ok", r[0].dtype)
    except Exception as e: print("   ORT FAIL", str(e)[:160])
