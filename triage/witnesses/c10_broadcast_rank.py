import numpy as np, jax, jax.numpy as jnp
from jax2onnx import to_onnx
import onnxruntime as ort
rng = np.random.default_rng(0); bad = 0
def check(nm, g, *xs):
    global bad
    ref = np.asarray(g(*xs))
    try:
        m = to_onnx(g, [jax.ShapeDtypeStruct(x.shape, x.dtype) for x in xs])
        s = ort.InferenceSession(m.SerializeToString(), providers=["CPUExecutionProvider"])
        got = s.run(None, {i.name: x for i, x in zip(s.get_inputs(), xs)})[0]
    except Exception as e:
        print(nm, "ERR", type(e).__name__, str(e)[:150]); bad += 1; return
    ok = got.shape == ref.shape and np.allclose(got, ref, atol=1e-4); print(nm, got.shape, ref.shape, ok); bad += not ok
A = rng.standard_normal((2, 3, 3)).astype(np.float32); b = rng.standard_normal((2, 3)).astype(np.float32)
check("add (3,3)+(3,) both batched", lambda a, b: jax.vmap(lambda p, q: jnp.add(p, q))(a, b), A, b)
check("maximum (3,3),(3,) both batched", lambda a, b: jax.vmap(lambda p, q: jnp.maximum(p, q))(a, b), A, b)
check("where", lambda a, b: jax.vmap(lambda p, q: jnp.where(p > 0, p, q))(a, b), A, b)
A2 = rng.standard_normal((2, 3, 4)).astype(np.float32); b2 = rng.standard_normal((2, 4)).astype(np.float32)
check("add (3,4)+(4,) both batched", lambda a, b: jax.vmap(lambda p, q: jnp.add(p, q))(a, b), A2, b2)
check("add (3,4)+(4,) rhs unbatched", lambda a, b: jax.vmap(lambda p: jnp.add(p, b[0]))(a), A2, b2)
raise SystemExit(int(bad > 0))
