import numpy as np, onnx_ir as ir, onnx, onnxruntime as ort
from jax2onnx.converter.ir_optimizations import optimize_graph

def V(name, shape, dt=ir.DataType.FLOAT): return ir.Value(name=name, shape=ir.Shape(shape), type=ir.TensorType(dt))
def init(name, arr):
    v = ir.Value(name=name, shape=ir.Shape(arr.shape), type=ir.TensorType(ir.DataType.from_numpy(arr.dtype)), const_value=ir.tensor(arr)); return v
def node(op, ins, outs, **attrs):
    return ir.Node("", op, inputs=ins, outputs=outs, attributes=ir.convenience.convert_attributes(attrs), name=op+"_"+outs[0].name)
def run(model, feeds):
    p = ir.to_proto(model)
    s = ort.InferenceSession(p.SerializeToString())
    return s.run(None, feeds)
def build(inputs, outputs, nodes, inits=()):
    g = ir.Graph(inputs=inputs, outputs=outputs, nodes=nodes, initializers=list(inits), name="g", opset_imports={"":21})
    return ir.Model(g, ir_version=10)
def check(title, mk, feeds):
    m1 = mk(); r1 = run(m1, feeds)
    m2 = mk(); optimize_graph(m2)
    try:
        r2 = run(m2, feeds)
    except Exception as e:
        print(title, "-> optimized model FAILS to run:", str(e)[:150]); return
    ok = len(r1)==len(r2) and all(a.shape==b.shape and np.allclose(a,b) for a,b in zip(r1,r2))
    print(title, "OK" if ok else "MISMATCH", [a.shape for a in r1], [b.shape for b in r2], [n.op_type for n in m2.graph])

x = np.random.rand(2,3,4,5).astype(np.float32)
# (i) T1 -> ReduceMean(keepdims=1, axes=[1]) -> T2 ; reducer_out also graph output
def mk1():
    X=V("x",(2,3,4,5)); t1=V("t1",(2,4,5,3)); r=V("r",(2,1,5,3)); t2=V("t2",(2,3,1,5))
    ax=init("axes", np.array([1],np.int64))
    return build([X],[t2,r],[node("Transpose",[X],[t1],perm=[0,2,3,1]), node("ReduceMean",[t1,ax],[r],keepdims=1), node("Transpose",[r],[t2],perm=[0,3,1,2])],[ax])
check("(i) reduce out is graph output", mk1, {"x":x})
# (ii) T1->Relu->T2, relu out also graph output
def mk2():
    X=V("x",(2,3,4,5)); t1=V("t1",(2,4,5,3)); r=V("r",(2,4,5,3)); t2=V("t2",(2,3,4,5))
    return build([X],[t2,r],[node("Transpose",[X],[t1],perm=[0,2,3,1]), node("Relu",[t1],[r]), node("Transpose",[r],[t2],perm=[0,3,1,2])])
check("(ii) relu out is graph output", mk2, {"x":x})
# (iii) T1->Max(t1,y)->T2 with y non-scalar graph input in NHWC layout
y = np.random.rand(2,4,5,3).astype(np.float32)
def mk3():
    X=V("x",(2,3,4,5)); Y=V("y",(2,4,5,3)); t1=V("t1",(2,4,5,3)); r=V("r",(2,4,5,3)); t2=V("t2",(2,3,4,5))
    return build([X,Y],[t2],[node("Transpose",[X],[t1],perm=[0,2,3,1]), node("Max",[t1,Y],[r]), node("Transpose",[r],[t2],perm=[0,3,1,2])])
check("(iii) Max with non-scalar side operand", mk3, {"x":x,"y":y})
# (iv) add forest: Add(T(x),T(z)) -> T^-1 ; add out also graph output
z = np.random.rand(2,3,4,5).astype(np.float32)
def mk4():
    X=V("x",(2,3,4,5)); Z=V("z",(2,3,4,5)); a=V("a",(2,4,5,3)); b=V("b",(2,4,5,3)); s=V("s",(2,4,5,3)); t2=V("t2",(2,3,4,5))
    return build([X,Z],[t2,s],[node("Transpose",[X],[a],perm=[0,2,3,1]), node("Transpose",[Z],[b],perm=[0,2,3,1]), node("Add",[a,b],[s]), node("Transpose",[s],[t2],perm=[0,3,1,2])])
check("(iv) add out is graph output", mk4, {"x":x,"z":z})
# (v) Reshape->Relu->Reshape; relu out graph output
w = np.random.rand(2,6).astype(np.float32)
def mk5():
    X=V("x",(2,6)); s1=init("s1",np.array([3,4],np.int64)); s2=init("s2",np.array([2,6],np.int64)); a=V("a",(3,4)); r=V("r",(3,4)); o=V("o",(2,6))
    return build([X],[o,r],[node("Reshape",[X,s1],[a]), node("Relu",[a],[r]), node("Reshape",[r,s2],[o])],[s1,s2])
check("(v) reshape pair, relu out graph output", mk5, {"x":w})
# (vi) symbolic dims: (B,N) -> flatten -> (N,B)
def mk6():
    X=V("x",("B","N")); s1=init("s1",np.array([-1],np.int64)); a=V("a",(None,)); sh=V("sh",(2,),ir.DataType.INT64); o=V("o",("N","B"))
    shp=V("shp",(2,),ir.DataType.INT64); idx=init("idx",np.array([1,0],np.int64))
    return build([X],[o],[node("Reshape",[X,s1],[a]), node("Shape",[X],[shp]), node("Gather",[shp,idx],[sh],axis=0), node("Reshape",[a,sh],[o])],[s1,idx])
check("(vi) reshape pair with swapped symbolic dims", mk6, {"x":np.random.rand(2,3).astype(np.float32)})
# (vii) T1->Clip(t1,min,max) with non-scalar min tensor
def mk7():
    X=V("x",(2,3,4,5)); Y=V("y",(2,4,5,3)); t1=V("t1",(2,4,5,3)); r=V("r",(2,4,5,3)); t2=V("t2",(2,3,4,5))
    return build([X,Y],[t2],[node("Transpose",[X],[t1],perm=[0,2,3,1]), node("Min",[t1,Y],[r]), node("Transpose",[r],[t2],perm=[0,3,1,2])])
check("(vii) Min with non-scalar side operand", mk7, {"x":x,"y":y})
