import numpy as np, jax, jax.numpy as jnp
from jax2onnx import to_onnx
import onnxruntime as ort
def run(name, f, shape):
    m = to_onnx(f, inputs=[jax.ShapeDtypeStruct(shape, jnp.float32)], model_name=name)
    x = np.random.default_rng(0).standard_normal(shape).astype(np.float32)
    s = ort.InferenceSession(m.SerializeToString())
    got = s.run(None, {s.get_inputs()[0].name: x})[0]
    want = np.asarray(f(x))
    print(name, [n.op_type for n in m.graph.node], "max abs err", float(np.abs(got - want).max()))
run("nokeep_square", lambda x: x / jnp.sqrt(jnp.sum(x * x, axis=1)), (4, 4))
run("keep", lambda x: x / jnp.sqrt(jnp.sum(x * x, axis=1, keepdims=True)), (4, 4))
run("nokeep_axis0", lambda x: x / jnp.sqrt(jnp.sum(x * x, axis=0)), (3, 4))
run("l1_nokeep", lambda x: x / jnp.sum(jnp.abs(x), axis=1), (4, 4))
