"""Triage helper (NOT a check: it imports and runs jax2onnx).  Confirms every R-C19a finding of
/verif/evidence/C19.json against the real wrappers: the call form binds on the library callable's
signature and raises TypeError on the installed substitute.  Prints one line per finding."""
import inspect, json, sys, warnings
warnings.filterwarnings("ignore")
sys.path.insert(0, "/verif")
from sa.sigs import library_object

ev = json.load(open("/verif/evidence/C19.json"))
finds = [v for v in ev["coverage"]["all_violations"] if v["rule"] == "R-C19a"]
origs = {}
for v in finds:
    fq, pname, form = v["key"].split("::")
    tgt, attr = fq.rsplit(".", 1)
    o, err = library_object(tgt, attr)
    origs[fq] = o

from jax2onnx.converter.conversion_api import _activate_plugin_worlds
from jax2onnx.plugins.plugin_system import PLUGIN_REGISTRY

def build_call(sig, pname, form):
    args, kwargs = [], {}
    ps = list(sig.parameters.values())
    if form.startswith("positional#"):
        k = int(form.split("#")[1])
        pos = [p for p in ps if p.kind in (p.POSITIONAL_ONLY, p.POSITIONAL_OR_KEYWORD)]
        args = [None] * (k + 1)
        for p in ps:
            if p.kind == p.KEYWORD_ONLY and p.default is p.empty:
                kwargs[p.name] = None
        return args, kwargs
    seen = False
    for p in ps:
        if p.name == pname:
            kwargs[p.name] = None
            seen = True
        elif p.kind in (p.POSITIONAL_ONLY, p.POSITIONAL_OR_KEYWORD) and p.default is p.empty:
            if seen:
                kwargs[p.name] = None
            else:
                args.append(None)
        elif p.kind == p.KEYWORD_ONLY and p.default is p.empty:
            kwargs[p.name] = None
    return args, kwargs

ok = bad = 0
with _activate_plugin_worlds():
    for v in finds:
        fq, pname, form = v["key"].split("::")
        tgt, attr = fq.rsplit(".", 1)
        orig = origs[fq]
        wrapper, _ = library_object(tgt, attr)
        osig = inspect.signature(orig)
        args, kwargs = build_call(osig, pname, form)
        try:
            osig.bind(*args, **kwargs)
        except TypeError as e:
            print("NOT-A-VALID-CALL", v["key"], e); bad += 1; continue
        generic = "forwards it to bind" in v.get("detail", "")
        try:
            if generic:
                cls = None
                for p in PLUGIN_REGISTRY.values():
                    if type(p).__name__ == v.get("function"):
                        cls = p
                inspect.signature(cls.abstract_eval).bind(*args, **kwargs)
            else:
                inspect.signature(wrapper).bind(*args, **kwargs)
            print("NOT-CONFIRMED", v["key"], "wrapper binds", args, kwargs, inspect.signature(wrapper)); bad += 1
        except TypeError as e:
            ok += 1
print(f"confirmed {ok} / {len(finds)}; not confirmed {bad}")
