import ast, glob, os, re, collections
JAX="/venv/lib/python3.12/site-packages/jax/_src"
lib=collections.defaultdict(set); whole=set()
for path in glob.glob(JAX+"/**/*.py", recursive=True):
    try: tree=ast.parse(open(path).read())
    except Exception: continue
    for n in ast.walk(tree):
        if isinstance(n, ast.Call) and isinstance(n.func, ast.Attribute) and n.func.attr=="bind":
            v=n.func.value
            nm=v.id if isinstance(v,ast.Name) else (v.attr if isinstance(v,ast.Attribute) else None)
            if nm and nm.endswith("_p"):
                for kw in n.keywords:
                    if kw.arg is None: whole.add(nm)
                    else: lib[nm].add(kw.arg)
def param_keys(tree):
    """string keys used in params-like accesses anywhere in module"""
    keys=set(); escapes=False
    for n in ast.walk(tree):
        # X["k"] / X.get("k"...) / X.pop("k") where X textual contains 'params'
        if isinstance(n, ast.Subscript) and isinstance(n.slice, ast.Constant) and isinstance(n.slice.value,str):
            if "param" in ast.unparse(n.value).lower(): keys.add(n.slice.value)
        if isinstance(n, ast.Call) and isinstance(n.func, ast.Attribute) and n.func.attr in ("get","pop") and n.args and isinstance(n.args[0], ast.Constant) and isinstance(n.args[0].value,str):
            if "param" in ast.unparse(n.func.value).lower(): keys.add(n.args[0].value)
        if isinstance(n, ast.Compare) and isinstance(n.left, ast.Constant) and isinstance(n.left.value,str) and any(isinstance(o,(ast.In,ast.NotIn)) for o in n.ops):
            if "param" in ast.unparse(n.comparators[0]).lower(): keys.add(n.left.value)
        if isinstance(n, ast.keyword) and n.arg is None and "param" in ast.unparse(n.value).lower(): escapes=True
        if isinstance(n, ast.Call) and isinstance(n.func, ast.Name) and n.func.id=="dict" and n.args and "param" in ast.unparse(n.args[0]).lower(): pass
    return keys, escapes
modcache={}
def mod_info(path):
    if path in modcache: return modcache[path]
    tree=ast.parse(open(path).read())
    keys,esc=param_keys(tree)
    imps=[]
    for n in ast.walk(tree):
        if isinstance(n, ast.ImportFrom) and n.module and n.module.startswith("jax2onnx.plugins"):
            p="/repo/"+n.module.replace(".","/")+".py"
            if os.path.exists(p): imps.append(p)
    modcache[path]=(tree,keys,esc,imps); return modcache[path]
def closure(path, depth=3, seen=None):
    seen=seen or set()
    if path in seen or depth<0: return set(),False
    seen.add(path)
    tree,keys,esc,imps=mod_info(path)
    keys=set(keys)
    for p in imps:
        if os.path.basename(p) in ("plugin_system.py","_post_check_onnx_graph.py","_patching.py"): continue
        k,e=closure(p,depth-1,seen); keys|=k; esc=esc or e
    return keys,esc
INERT={"sharding","out_sharding","precision","accuracy","unroll","linear","indices_are_sorted","unique_indices","_split_transpose","weak_type","preferred_element_type","ft_in","ft_out","tree","devices","srcs","copy_semantics","jaxpr","index_dtype","new_dtype","dtype","shape","new_sizes","input_dtype","out_dtype","recall_target","reduction_input_size_override","aggregate_to_topk","algorithm","update_jaxpr","update_consts","dimensions"}
rows=[]
for path in sorted(glob.glob("/repo/jax2onnx/plugins/jax/**/*.py", recursive=True)):
    src=open(path).read()
    m=re.findall(r"jaxpr_primitive=(?:jax\.)?(?:lax|_src\.[\w\.]+)\.(\w+_p)\.name", src)
    m+= [x+"_p" for x in re.findall(r"jaxpr_primitive=\"(\w+)\"", src)]
    if not m: continue
    keys,esc=closure(path)
    for prim in sorted(set(m)):
        if prim not in lib: continue
        unread=sorted(k for k in lib[prim] if k not in keys and k not in INERT)
        if unread: rows.append((os.path.relpath(path,"/repo/jax2onnx/plugins"),prim,unread,"ESC" if esc else "", "LIBWHOLE" if prim in whole else ""))
for r in rows: print(r)
print(len(rows))
