import ast, glob, os, collections, sys, importlib, inspect, warnings
warnings.filterwarnings("ignore")
def const_str(node, env):
    if isinstance(node, ast.Constant) and isinstance(node.value,str): return node.value
    if isinstance(node, ast.JoinedStr):
        out=""
        for v in node.values:
            if isinstance(v, ast.Constant): out+=str(v.value)
            elif isinstance(v, ast.FormattedValue):
                s=const_str(v.value, env)
                if s is None: return None
                out+=s
        return out
    if isinstance(node, ast.Attribute) and isinstance(node.value, ast.Name) and node.value.id in ("cls","self"):
        return env.get(node.attr)
    if isinstance(node, ast.Name): return env.get(node.id)
    return None
results=[]; unresolved=[]
for path in sorted(glob.glob("/repo/jax2onnx/plugins/**/*.py", recursive=True)):
    if "/examples/" in path: continue
    src=open(path).read()
    if "MonkeyPatchSpec" not in src and "jnp_binding_specs" not in src: continue
    tree=ast.parse(src)
    modenv={}
    for st in tree.body:
        if isinstance(st,(ast.Assign,ast.AnnAssign)):
            tgt = st.targets[0] if isinstance(st,ast.Assign) else st.target
            if isinstance(tgt, ast.Name) and st.value is not None:
                s=const_str(st.value, modenv)
                if s is not None: modenv[tgt.id]=s
    for cls in [n for n in ast.walk(tree) if isinstance(n, ast.ClassDef)]:
        env=dict(modenv)
        for st in cls.body:
            if isinstance(st,(ast.Assign,ast.AnnAssign)):
                tgt = st.targets[0] if isinstance(st,ast.Assign) else st.target
                if isinstance(tgt, ast.Name) and st.value is not None:
                    s=const_str(st.value, env)
                    if s is not None: env[tgt.id]=s
        methods={m.name:m for m in cls.body if isinstance(m,(ast.FunctionDef,))}
        bs=methods.get("binding_specs")
        if not bs: continue
        localdefs={n.name:n for n in ast.walk(bs) if isinstance(n, ast.FunctionDef) and n is not bs}
        # local simple assigns
        lenv=dict(env)
        for n in ast.walk(bs):
            if isinstance(n, ast.Assign) and isinstance(n.targets[0], ast.Name):
                s=const_str(n.value, lenv)
                if s is not None: lenv[n.targets[0].id]=s
        def wrapper_of(mv):
            # returns ast.FunctionDef/Lambda of the wrapper or 'GENERIC' or None
            def returned_def(fn):
                inner={n.name:n for n in ast.walk(fn) if isinstance(n,ast.FunctionDef) and n is not fn}
                for r in [n for n in ast.walk(fn) if isinstance(n, ast.Return) and n.value is not None]:
                    v=r.value
                    if isinstance(v, ast.Call) and isinstance(v.func, ast.Name) and v.func.id=="cast" and len(v.args)==2: v=v.args[1]
                    if isinstance(v, ast.Name) and v.id in inner: return inner[v.id]
                    if isinstance(v, ast.Lambda): return v
                    if isinstance(v, ast.Call) and isinstance(v.func, ast.Attribute) and isinstance(v.func.value, ast.Name) and v.func.value.id in ("cls","self") and v.func.attr in methods:
                        return returned_def(methods[v.func.attr])
                    if isinstance(v, ast.Call) and isinstance(v.func, ast.Name) and v.func.id in inner:
                        return returned_def(inner[v.func.id])
                return None
            if isinstance(mv, ast.Name) and mv.id in localdefs: return returned_def(localdefs[mv.id])
            if isinstance(mv, ast.Lambda):
                b=mv.body
                if isinstance(b, ast.Call) and isinstance(b.func, ast.Attribute) and isinstance(b.func.value, ast.Name) and b.func.value.id in("cls","self") and b.func.attr in methods:
                    return returned_def(methods[b.func.attr])
                if isinstance(b, ast.Call) and isinstance(b.func, ast.Name) and b.func.id in localdefs:
                    return returned_def(localdefs[b.func.id])
                return None
            if isinstance(mv, ast.Attribute) and isinstance(mv.value, ast.Name) and mv.value.id in("cls","self") and mv.attr in methods:
                return returned_def(methods[mv.attr])
            return None
        for n in ast.walk(bs):
            if isinstance(n, ast.Call):
                fn = n.func.id if isinstance(n.func, ast.Name) else (n.func.attr if isinstance(n.func, ast.Attribute) else "")
                if fn=="MonkeyPatchSpec":
                    kw={k.arg:k.value for k in n.keywords}
                    args=list(n.args)
                    tgt = kw.get("target") or (args[0] if args else None)
                    attr= kw.get("attr") or (args[1] if len(args)>1 else None)
                    mv  = kw.get("make_value") or (args[2] if len(args)>2 else None)
                    t=const_str(tgt,lenv) if tgt is not None else None; a=const_str(attr,lenv) if attr is not None else None
                    w=wrapper_of(mv) if mv is not None else None
                    (results if (t and a and w is not None) else unresolved).append((os.path.relpath(path,"/repo"),n.lineno,cls.name,t,a,w))
                elif fn=="jnp_binding_specs":
                    a=const_str(n.args[1],lenv) if len(n.args)>1 else None
                    (results if a else unresolved).append((os.path.relpath(path,"/repo"),n.lineno,cls.name,"jax.numpy",a,"GENERIC"))
print("resolved",len(results),"unresolved",len(unresolved))
for u in unresolved[:40]: print("  UNRES",u[:5], type(u[5]).__name__)
# compare signatures
def resolve_target(t,a):
    parts=t.split("."); obj=None
    for i in range(len(parts),0,-1):
        try:
            obj=importlib.import_module(".".join(parts[:i])); rest=parts[i:]; break
        except Exception: continue
    if obj is None: return None
    for r in rest: obj=getattr(obj,r)
    return getattr(obj,a,None)
issues=[]; nocmp=0; cmpd=0
for (p,l,c,t,a,w) in results:
    try: orig=resolve_target(t,a)
    except Exception as e: nocmp+=1; continue
    if orig is None: nocmp+=1; continue
    try: sig=inspect.signature(orig)
    except Exception: nocmp+=1; continue
    if w=="GENERIC": continue
    cmpd+=1
    wa=w.args
    wpos=[x.arg for x in wa.posonlyargs+wa.args]
    wkw=set(x.arg for x in wa.args+wa.kwonlyargs)
    has_var=wa.vararg is not None; has_kw=wa.kwarg is not None
    i=0
    for name,prm in sig.parameters.items():
        if prm.kind in (prm.POSITIONAL_ONLY, prm.POSITIONAL_OR_KEYWORD):
            if i>=len(wpos) and not has_var: issues.append((t+"."+a,name,"positional#%d"%i,p,l))
            elif i<len(wpos) and prm.kind==prm.POSITIONAL_OR_KEYWORD and wpos[i]!=name and not has_kw and name not in wkw:
                issues.append((t+"."+a,name,"keyword(name differs: %s)"%wpos[i],p,l))
            elif i>=len(wpos) and has_var and prm.kind==prm.POSITIONAL_OR_KEYWORD and name not in wkw and not has_kw:
                issues.append((t+"."+a,name,"keyword",p,l))
            i+=1
        elif prm.kind==prm.KEYWORD_ONLY:
            if name not in wkw and not has_kw: issues.append((t+"."+a,name,"keyword-only",p,l))
print("compared",cmpd,"nocmp",nocmp,"issues",len(issues),"distinct substitutes with issues",len({x[0] for x in issues}))
for x in issues[:80]: print("  ",x[:3])
print("---- unused wrapper params")
unused=[]
for (p,l,c,t,a,w) in results:
    if w=="GENERIC" or isinstance(w, ast.Lambda): continue
    names=[x.arg for x in w.args.posonlyargs+w.args.args+w.args.kwonlyargs]
    if w.args.kwarg: names.append(w.args.kwarg.arg)
    if w.args.vararg: names.append(w.args.vararg.arg)
    loaded={n.id for n in ast.walk(w) if isinstance(n, ast.Name) and isinstance(n.ctx, ast.Load)}
    deleted={t2.id for n in ast.walk(w) if isinstance(n, ast.Delete) for t2 in n.targets if isinstance(t2, ast.Name)}
    for nm in names:
        if nm in ("self","cls"): continue
        if nm not in loaded or nm in deleted:
            unused.append((t+"."+a, nm, "deleted" if nm in deleted else "never-read"))
print(len(unused))
import collections
print(collections.Counter(u[1] for u in unused).most_common(20))
for u in unused[:40]: print("  ",u)
