import ast, glob, os, collections, sys
import onnx.defs
hist=collections.defaultdict(dict)
for s in onnx.defs.get_all_schemas_with_history():
    if s.domain in ("",): hist[s.name][s.since_version]=s
NEW=onnx.defs.onnx_opset_version()
def schema_at(op,v):
    vs=[k for k in hist.get(op,{}) if k<=v]
    return hist[op][max(vs)] if vs else None
sites=[]; dyn=[]
RECV={"builder","b","bld","_builder","child_builder","body_builder","loop_builder"}
for path in sorted(glob.glob("/repo/jax2onnx/**/*.py", recursive=True)):
    if "/sandbox/" in path or "/examples/" in path or path.endswith("_post_check_onnx_graph.py"): continue
    tree=ast.parse(open(path).read())
    for n in ast.walk(tree):
        if isinstance(n, ast.Call):
            f=n.func
            if isinstance(f, ast.Attribute) and f.attr[:1].isupper() and f.attr in hist:
                # receiver ends with builder-ish
                rv=f.value
                rname = rv.attr if isinstance(rv, ast.Attribute) else (rv.id if isinstance(rv, ast.Name) else "")
                if "builder" in rname.lower() or rname in RECV:
                    sites.append((path,n.lineno,f.attr,[k.arg for k in n.keywords if k.arg and not k.arg.startswith("_")], len(n.args)))
            # ir.Node("", "Op") / ir.Node(op_type="Op") / add_node("Op"/op_type=)
            name = f.attr if isinstance(f, ast.Attribute) else (f.id if isinstance(f, ast.Name) else "")
            if name in ("Node","node","add_node","op_multi_out","op","_builder_op"):
                op=None
                for k in n.keywords:
                    if k.arg=="op_type":
                        op = k.value.value if isinstance(k.value, ast.Constant) else "<dyn>"
                if op is None:
                    consts=[a.value for a in n.args if isinstance(a, ast.Constant) and isinstance(a.value,str)]
                    cands=[c for c in consts if c in hist]
                    if cands: op=cands[0]
                    elif name in ("Node","add_node","op_multi_out","_builder_op"): op="<dyn>"
                if op=="<dyn>": dyn.append((path,n.lineno,name))
                elif op: sites.append((path,n.lineno,op,[],0))
            if name=="getattr" and len(n.args)>=2 and not isinstance(n.args[1], ast.Constant):
                a0=n.args[0]
                rn = a0.attr if isinstance(a0, ast.Attribute) else (a0.id if isinstance(a0, ast.Name) else "")
                if "builder" in rn.lower(): dyn.append((path,n.lineno,"getattr"))
print("sites",len(sites),"distinct ops",len({s[2] for s in sites}),"dynamic",len(dyn))
bad=collections.Counter(); badattr=[]
for p,l,op,attrs,nargs in sites:
    for v in range(21,NEW+1):
        sc=schema_at(op,v)
        if sc is None or sc.deprecated:
            bad[(op,os.path.relpath(p,"/repo"),l)] += 1; break
    sc=schema_at(op,21) or schema_at(op,NEW)
    if sc:
        for a in attrs:
            if a not in sc.attributes and a not in (schema_at(op,NEW).attributes if schema_at(op,NEW) else {}):
                badattr.append((op,a,os.path.relpath(p,"/repo"),l))
        if nargs>sc.max_input: badattr.append((op,"nargs",nargs,sc.max_input,os.path.relpath(p,"/repo"),l))
print("op unavailable somewhere in 21..%d (before guards):"%NEW)
for k in sorted(bad): print("  ",k)
print("attr/arity issues:", len(badattr))
for b in badattr[:40]: print("  ",b)
print("dynamic samples", dyn[:25])
