import os, sys, time
t=time.time()
from mypy import build
from mypy.options import Options
from mypy.find_sources import create_source_list
from mypy.config_parser import parse_config_file
import mypy.nodes as N
os.chdir('/repo')
opts=Options(); parse_config_file(opts, lambda: None, 'pyproject.toml')
opts.preserve_asts=True; opts.export_types=True; opts.incremental=False; opts.cache_dir=os.devnull
srcs=create_source_list(['jax2onnx/converter','jax2onnx/plugins/plugin_system.py','jax2onnx/plugins/_patching.py','jax2onnx/user_interface.py','jax2onnx/plugins/jax/lax','jax2onnx/plugins/jax/_autodiff_utils.py'], opts)
res=build.build(srcs, opts)
print("build s", round(time.time()-t,1), "errors", len(res.errors))
found=[]
def walk(node, seen, mod):
    if node is None or id(node) in seen: return
    seen.add(id(node))
    if isinstance(node, N.ForStmt):
        ty=res.types.get(node.expr)
        found.append((mod, node.line, str(ty)))
    if isinstance(node, (N.GeneratorExpr, N.DictionaryComprehension)):
        for seq in node.sequences:
            found.append((mod, seq.line, str(res.types.get(seq))))
    for attr in ('defs','body','else_body','expr','items','func','callee','args','left','right','operands','rvalue','lvalues','handlers','finally_body','generator','left_expr','sequences','condlists','indices','base','index','target','init'):
        try: v=getattr(node, attr, None)
        except Exception: continue
        if isinstance(v, N.Node): walk(v, seen, mod)
        elif isinstance(v, (list,tuple)):
            for x in v:
                if isinstance(x, N.Node): walk(x, seen, mod)
                elif isinstance(x,(list,tuple)):
                    for y in x:
                        if isinstance(y, N.Node): walk(y, seen, mod)
for mod,f in res.files.items():
    if mod.startswith('jax2onnx'): walk(f, set(), mod)
sets=[f for f in found if f[2].lower().startswith(("set[","builtins.set[","frozenset[","builtins.frozenset[")) or "AbstractSet" in f[2]]
import collections; print(collections.Counter(f[2].split("[")[0] for f in found).most_common(12))
print("for/comprehension sites", len(found), "over sets", len(sets))
for s in sets: print("  ",s)
sys.stdout.flush(); os._exit(0)
