import ast, glob, os, collections
tot=0; swallow=[]
EMIT_HINT=("builder.", "bind_value_for_var", "lower_jaxpr", ".lower(", "bind_const_for_var", "add_node", "get_value_for_var")
for path in sorted(glob.glob("/repo/jax2onnx/**/*.py", recursive=True)):
    if "/sandbox/" in path or "/examples/" in path or path.endswith("_post_check_onnx_graph.py"): continue
    src=open(path).read(); tree=ast.parse(src)
    for n in ast.walk(tree):
        if isinstance(n, ast.Try):
            body_src="\n".join(ast.unparse(b) for b in n.body)
            for h in n.handlers:
                tot+=1
                hs=[s for s in h.body]
                reraises=any(isinstance(x, ast.Raise) for s in hs for x in ast.walk(s))
                if reraises: continue
                broad = h.type is None or (isinstance(h.type, ast.Name) and h.type.id in ("Exception","BaseException"))
                emits=any(k in body_src for k in EMIT_HINT)
                if broad and emits:
                    swallow.append((os.path.relpath(path,"/repo"), n.lineno, ast.unparse(h.type) if h.type else "bare", ast.unparse(hs[0])[:50], body_src[:70].replace("\n"," | ")))
print("handlers", tot, "broad non-reraising around emitting bodies", len(swallow))
for s in swallow[:60]: print(s)
