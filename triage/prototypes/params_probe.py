import ast, sys, os, re, glob, collections
JAX = "/venv/lib/python3.12/site-packages/jax/_src"
# 1. library side: collect keyword names at `<name>_p.bind(` calls
lib = collections.defaultdict(set); wholesale=set()
for path in glob.glob(JAX+"/**/*.py", recursive=True):
    try: tree = ast.parse(open(path).read())
    except Exception: continue
    for n in ast.walk(tree):
        if isinstance(n, ast.Call) and isinstance(n.func, ast.Attribute) and n.func.attr=="bind":
            v = n.func.value
            nm = v.id if isinstance(v, ast.Name) else (v.attr if isinstance(v, ast.Attribute) else None)
            if nm and nm.endswith("_p"):
                for kw in n.keywords:
                    if kw.arg is None: wholesale.add(nm)
                    else: lib[nm].add(kw.arg)
print("lib prims with kw", len(lib), "wholesale", len(wholesale))
# 2. repo side: for each plugin file with jaxpr_primitive=jax.lax.X_p.name find keys read in the module
REPO="/repo/jax2onnx/plugins/jax/lax"
rows=[]
for path in sorted(glob.glob(REPO+"/*.py")):
    src=open(path).read()
    m = re.findall(r"jaxpr_primitive=(?:jax\.)?lax\.(\w+_p)\.name", src)
    if not m: continue
    tree=ast.parse(src)
    keys=set(); whole=False
    for n in ast.walk(tree):
        if isinstance(n, ast.Constant) and isinstance(n.value,str): keys.add(n.value)
        if isinstance(n, ast.Call):
            for kw in n.keywords:
                if kw.arg is None and "params" in ast.unparse(kw.value): whole=True
    for prim in set(m):
        unread = sorted(k for k in lib.get(prim,()) if k not in keys)
        rows.append((os.path.basename(path), prim, unread, whole, prim in wholesale))
tot=0
for r in rows:
    if r[2]:
        tot+=1; print(r)
print(len(rows), "plugins;", tot, "with unread keys")
