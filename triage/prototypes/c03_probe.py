import ast, glob, os, collections
cnt=collections.Counter(); samples=collections.defaultdict(list)
def classify(e, fn_assigns, params, depth=0):
    if depth>4: return "UNKNOWN"
    if isinstance(e, ast.Call):
        f=e.func
        nm=f.attr if isinstance(f,ast.Attribute) else (f.id if isinstance(f,ast.Name) else "")
        if nm=="fresh_name": return "FRESH"
        if nm=="getattr" and len(e.args)>=2 and isinstance(e.args[1],ast.Constant) and e.args[1].value=="name": return "EXISTING"
        if nm in ("cast","str"): return classify(e.args[-1], fn_assigns, params, depth+1)
        return "CALL:"+nm
    if isinstance(e, ast.Attribute) and e.attr=="name": return "EXISTING"
    if isinstance(e, ast.BoolOp):
        cs={classify(v, fn_assigns, params, depth+1) for v in e.values}
        cs.discard("EXISTING")
        return cs.pop() if len(cs)==1 else ("EXISTING" if not cs else "MIXED")
    if isinstance(e, ast.IfExp):
        cs={classify(e.body, fn_assigns, params, depth+1), classify(e.orelse, fn_assigns, params, depth+1)}
        if cs<={"FRESH","EXISTING"}: return "FRESH"
        return "MIXED:"+",".join(sorted(cs))
    if isinstance(e, ast.Constant) and isinstance(e.value,str): return "LITERAL"
    if isinstance(e, ast.JoinedStr):
        subs=[classify(v.value, fn_assigns, params, depth+1) for v in e.values if isinstance(v, ast.FormattedValue)]
        if any(s in("FRESH","EXISTING") or s.startswith("PARAM") for s in subs): return "DERIVED"
        return "LITERAL-F"
    if isinstance(e, ast.Name):
        if e.id in fn_assigns:
            cs={classify(v, fn_assigns, params, depth+1) for v in fn_assigns[e.id]}
            if cs<={"FRESH","EXISTING","DERIVED"}: return "FRESH"
            if len(cs)==1: return cs.pop()
            return "MIXED:"+",".join(sorted(cs))
        if e.id in params: return "PARAM"
        return "FREEVAR"
    if isinstance(e, ast.Subscript): return classify(e.value, fn_assigns, params, depth+1)
    if isinstance(e, (ast.List,ast.Tuple,ast.ListComp)): 
        if isinstance(e, ast.ListComp): return classify(e.elt, fn_assigns, params, depth+1)
        cs={classify(v, fn_assigns, params, depth+1) for v in e.elts}
        return cs.pop() if len(cs)==1 else "MIXED:"+",".join(sorted(cs))
    return "UNKNOWN:"+type(e).__name__
for path in sorted(glob.glob("/repo/jax2onnx/**/*.py", recursive=True)):
    if "/sandbox/" in path or "/examples/" in path: continue
    tree=ast.parse(open(path).read())
    for fn in [n for n in ast.walk(tree) if isinstance(n,(ast.FunctionDef,ast.Lambda))]:
        if isinstance(fn, ast.Lambda): continue
        assigns=collections.defaultdict(list)
        for n in ast.walk(fn):
            if isinstance(n, ast.Assign):
                for t in n.targets:
                    if isinstance(t, ast.Name): assigns[t.id].append(n.value)
            if isinstance(n, ast.AnnAssign) and isinstance(n.target, ast.Name) and n.value is not None: assigns[n.target.id].append(n.value)
            if isinstance(n,(ast.For,ast.comprehension)) and isinstance(n.target, ast.Name): assigns[n.target.id].append(n.iter)
        params={a.arg for a in fn.args.args+fn.args.kwonlyargs+fn.args.posonlyargs}
        for n in ast.walk(fn):
            if isinstance(n, ast.Call):
                for kw in n.keywords:
                    if kw.arg=="_outputs" and isinstance(kw.value,(ast.List,ast.Tuple)):
                        for el in kw.value.elts:
                            c=classify(el, assigns, params)
                            cnt[c]+=1
                            if len(samples[c])<4: samples[c].append((os.path.relpath(path,"/repo"), el.lineno, ast.unparse(el)[:60]))
                    elif kw.arg=="_outputs":
                        c="WHOLE:"+classify(kw.value, assigns, params); cnt[c]+=1
                        if len(samples[c])<4: samples[c].append((os.path.relpath(path,"/repo"), kw.value.lineno, ast.unparse(kw.value)[:60]))
for k,v in cnt.most_common(): print(v,k, samples[k][:3])
