"""Side observation 3 (UNMODIFIED checkout, not optimizer related): with
enable_double_precision=True an explicitly float32 sub-computation is exported
as an invalid model without any error.

postprocess_ir_model(promote_to_double=True) widens EVERY float32 initializer to
float64, also the operand of a Mul whose other operand was deliberately cast to
float32.  to_onnx returns normally; onnx.checker (full_check) and onnxruntime
both reject the model ("Type parameter (T) of Optype (Mul) bound to different
types (tensor(float) and tensor(double))").

Run:  PYTHONPATH=<checkout> python side_obs_3_double_mode_f32_constant.py
Exit 1 == silently returned model is invalid.
"""

import sys

import numpy as np
import jax
import jax.numpy as jnp
import onnx
import onnxruntime as ort

from jax2onnx import to_onnx

c = np.asarray([1.5, 2.5, 3.25], dtype=np.float32)


def f(x):
    y = x.astype(jnp.float32) * c
    return y.astype(jnp.float64) + 1.0


m = to_onnx(f, [jax.ShapeDtypeStruct((3,), jnp.float64)], enable_double_precision=True)
print([(n.op_type, list(n.input), list(n.output)) for n in m.graph.node])
print([(i.name, i.data_type) for i in m.graph.initializer])
bad = False
try:
    onnx.checker.check_model(m, full_check=True)
    print("checker ok")
except Exception as e:
    bad = True
    print("checker:", str(e).strip().splitlines()[0])
try:
    ort.InferenceSession(m.SerializeToString())
    print("onnxruntime loads it")
except Exception as e:
    bad = True
    print("onnxruntime:", str(e).strip().splitlines()[0][:200])
sys.exit(1 if bad else 0)
