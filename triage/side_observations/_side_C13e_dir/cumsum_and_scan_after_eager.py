import jax, jax.numpy as jnp
from jax import lax
c0 = jnp.cumsum
import jax2onnx
print("after import same:", jnp.cumsum is c0)
def body(c, x):
    return c + jnp.sin(x), jnp.cos(c)
def f(x):
    return lax.scan(body, jnp.zeros((), x.dtype), x)[1]
x = jnp.arange(4.0)
before = f(x)
jax2onnx.to_onnx(f, [(4,)])
print("after to_onnx same:", jnp.cumsum is c0, jnp.cumsum)
try:
    after = f(x)
    print("scan ok", bool((before == after).all()))
except Exception as e:
    print("scan FAILED", type(e), str(e)[:300])
