# side observations on unmodified behaviour (independent of the seeded patch)
import threading, jax, jax.numpy as jnp
import jax2onnx
from jax2onnx import to_onnx, onnx_function
x = jnp.arange(6.0).reshape(2,3)
print("A. cumsum positional axis before first conversion:", jnp.cumsum(x, 1).tolist())
to_onnx(lambda a: a + 1.0, inputs=[(2,)], model_name="warm")
try:
    print("A. after:", jnp.cumsum(x, 1).tolist())
except Exception as e:
    print("A. after first conversion jnp.cumsum(x, 1) FAILS:", type(e).__name__, e)

# B. two overlapping conversions in two threads (non-LIFO exit)
add0 = jnp.add
e1_in, e2_in, go1, go2 = (threading.Event() for _ in range(4))
def f1(a):
    e1_in.set(); go1.wait(20); return jnp.add(a, 1.0)
def f2(a):
    e2_in.set(); go2.wait(20); return jnp.add(a, 2.0)
errs = []
def run(fn, name):
    try: to_onnx(fn, inputs=[(2,)], model_name=name)
    except Exception as e: errs.append((name, repr(e)[:200]))
t1 = threading.Thread(target=run, args=(f1, "t1")); t2 = threading.Thread(target=run, args=(f2, "t2"))
t1.start(); e1_in.wait(60)
t2.start(); e2_in.wait(60)
go1.set(); t1.join()      # first-in exits first
go2.set(); t2.join()
print("B. errs:", errs)
print("B. jnp.add restored after overlapping conversions:", jnp.add is add0, jnp.add)

# C. locally defined onnx_function poisons every later conversion?
def build():
    @onnx_function
    def inner_block(a):
        return jnp.sin(a)
    return inner_block
blk = build()
try:
    to_onnx(lambda a: a * 2.0, inputs=[(2,)], model_name="unrelated")
    print("C. unrelated conversion ok")
except Exception as e:
    print("C. unrelated conversion FAILS:", type(e).__name__, str(e)[:200])
from flax import nnx
import flax.linen as nn
print("C. nnx.relu still original:", nnx.relu.__module__, getattr(nnx.relu, "__name__", None))
