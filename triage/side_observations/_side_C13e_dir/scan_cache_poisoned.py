import jax, jax.numpy as jnp
from jax import lax
import jax2onnx
def body(c, x):
    return c + jnp.sin(x), jnp.cos(c)
def f(x):
    return lax.scan(body, jnp.zeros((), x.dtype), x)[1]
x = jnp.arange(4.0)
jax2onnx.to_onnx(f, [(4,)])
try:
    after = f(x)
    print("scan ok", after)
    print(jax.make_jaxpr(f)(x))
except Exception as e:
    print("scan FAILED", type(e), str(e)[:300])
