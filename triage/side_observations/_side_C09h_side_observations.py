"""Side observations on the UNMODIFIED checkout (run with the seed patch reversed)."""
import numpy as np, jax, jax.numpy as jnp, onnx, warnings
warnings.filterwarnings("ignore")
import onnxruntime as ort
from jax2onnx import to_onnx
S = jax.ShapeDtypeStruct
DBL = onnx.TensorProto.DOUBLE

def doubles(m):
    found = []
    def nodes(nl, where):
        for n in nl:
            for a in n.attribute:
                if a.type == onnx.AttributeProto.TENSOR and a.t.data_type == DBL: found.append(f"{where}:tensor-attr({n.op_type})")
                if n.op_type == "Cast" and a.name == "to" and a.i == DBL: found.append(f"{where}:Cast->DOUBLE")
                if a.type == onnx.AttributeProto.GRAPH: graph(a.g, where + "/" + n.op_type)
                for sg in a.graphs: graph(sg, where + "/" + n.op_type)
    def graph(g, where):
        for i in g.initializer:
            if i.data_type == DBL: found.append(f"{where}:init({i.name})")
        for vi in list(g.input) + list(g.output):
            if vi.type.tensor_type.elem_type == DBL: found.append(f"{where}:io({vi.name})")
        nodes(g.node, where)
    graph(m.graph, "main")
    for f in m.functions: nodes(f.node, "fn:" + f.name)
    return found

def opts():
    o = ort.SessionOptions(); o.graph_optimization_level = ort.GraphOptimizationLevel.ORT_DISABLE_ALL; return o

print("=== clause 1: DOUBLE entities in enable_double_precision=False exports")
i32 = S((3,), jnp.int32); f32 = S((3,), jnp.float32)
cases = {
    "jnp.less(int32, float32)": (lambda x, y: jnp.less(x, y), [i32, f32]),
    "jnp.equal(int32, float32)": (lambda x, y: jnp.equal(x, y), [i32, f32]),
    "jnp.greater_equal(int32, float32)": (lambda x, y: jnp.greater_equal(x, y), [i32, f32]),
    "jnp.concatenate((float32, int32))": (lambda a, b: jnp.concatenate((a, b), axis=0), [f32, i32]),
    "jnp.histogram(int32, bins=int32[3])": (lambda a, b: jnp.histogram(a, bins=b), [S((4,), jnp.int32), i32]),
    "jnp.linspace(3., 10., num=4, dtype=float64)": (lambda: jnp.linspace(3.0, 10.0, num=4, dtype=jnp.float64), []),
}
for name, (fn, specs) in cases.items():
    m = to_onnx(fn, specs, enable_double_precision=False, return_mode="proto")
    outs = [onnx.TensorProto.DataType.Name(o.type.tensor_type.elem_type) for o in m.graph.output]
    print(f"  {name:45s} outputs={outs} DOUBLE entities={doubles(m)[:4]}")
print("  x64 flag after:", jax.config.jax_enable_x64)

print("=== clause 2: enable_double_precision=True, float64-only programs, deviation from JAX(x64)")
def run(name, fn, specs, args):
    m = to_onnx(fn, specs, enable_double_precision=True, return_mode="proto")
    sess = ort.InferenceSession(m.SerializeToString(), opts())
    out = sess.run(None, {i.name: a for i, a in zip(sess.get_inputs(), args)})
    with jax.enable_x64(True):
        ref = np.asarray(fn(*[jnp.asarray(a) for a in args]))
    err = np.max(np.abs(out[0] - ref) / np.maximum(np.abs(ref), 1e-300))
    casts = [n.op_type for n in m.graph.node if n.op_type == "Cast" and any(a.name == "to" and a.i == onnx.TensorProto.FLOAT for a in n.attribute)]
    print(f"  {name:45s} max rel err={err:.3e}  Cast->FLOAT nodes={len(casts)}")
x = np.linspace(0.1, 2.0, 7); y = np.linspace(-1.3, 1.7, 7)
s7 = S((7,), jnp.float64)
run("jnp.arctan2(x, y)", lambda a, b: jnp.arctan2(a, b), [s7, s7], [x, y])
run("jax.nn.gelu(x) (tanh)", lambda a: jax.nn.gelu(a), [s7], [x])
import equinox as eqx
with jax.enable_x64(True):
    mha = eqx.nn.MultiheadAttention(num_heads=2, query_size=6, key=jax.random.PRNGKey(0), dtype=jnp.float64)
q = np.random.RandomState(0).randn(5, 6)
run("eqx.nn.MultiheadAttention(qk_size=3)", lambda a: mha(a, a, a), [S((5, 6), jnp.float64)], [q])
from flax import nnx
with jax.enable_x64(True):
    ln = nnx.LayerNorm(6, epsilon=1e-5, rngs=nnx.Rngs(0), param_dtype=jnp.float64, dtype=jnp.float64)
run("nnx.LayerNorm(eps=1e-5), x~1e-3", lambda a: ln(a), [S((5, 6), jnp.float64)], [q * 1e-3])
