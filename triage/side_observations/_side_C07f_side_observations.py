"""Reproducers for C07 violations that exist on the UNMODIFIED checkout
(independent of the seeded change).  Prints one verdict per case."""
import sys
import numpy as np, jax, jax.numpy as jnp
import onnxruntime as ort
from jax2onnx import onnx_function, to_onnx

x = np.arange(1, 4, dtype=np.float32)


def run(fn, args, **kw):
    sds = [jax.ShapeDtypeStruct(a.shape, a.dtype) for a in args]
    m = to_onnx(fn, inputs=sds, model_name="m", **kw)
    sess = ort.InferenceSession(m.SerializeToString())
    out = sess.run(None, {i.name: np.asarray(v) for i, v in zip(sess.get_inputs(), args)})[0]
    return m, out


def trial(title, fn, args, **kw):
    print("==", title)
    ref = np.asarray(fn(*args))
    try:
        m, out = run(fn, args, **kw)
    except BaseException as e:
        print("   EXPORT FAILS:", type(e).__name__, str(e).splitlines()[0][:160])
        return
    print("   defs:", [(f.domain, f.name) for f in m.functions],
          "calls:", sum(1 for n in m.graph.node if n.domain.startswith("custom")))
    ok = out.dtype == ref.dtype and np.allclose(out, ref)
    print("   onnx:", out, out.dtype, "| jax:", ref, ref.dtype, "->", "ok" if ok else "SILENT MISMATCH")


# S1: one instance, attribute changed between its two calls (non-unique: key is id(callee))
@onnx_function
class Scale:
    def __init__(self, k): self.k = k
    def __call__(self, x): return x * self.k
s = Scale(2.0)
def s1(x):
    s.k = 2.0; a = s(x)
    s.k = 3.0; return s(a)
trial("S1 instance attribute changed between two calls (shared def, body traced late)", s1, [x])

# S1b: same with unique=True
@onnx_function(unique=True)
class ScaleU:
    def __init__(self, k): self.k = k
    def __call__(self, x): return x * self.k
su = ScaleU(2.0)
def s1b(x):
    su.k = 2.0; a = su(x)
    su.k = 3.0; return su(a)
trial("S1b same, unique=True", s1b, [x])

# S2: plain function reading trace-time Python state
state = {"k": 1.0}
@onnx_function
def gscale(x): return x * state["k"]
def s2(x):
    state["k"] = 2.0; a = gscale(x)
    state["k"] = 3.0; return gscale(a)
trial("S2 function reads Python state that differs between its two call sites", s2, [x])

# S3: weak-typed Python scalar passed positionally: body is traced with a strong float32
@onnx_function
def mul(x, s): return x * s
trial("S3 weak-typed scalar argument (float16 * 2.0)", lambda x: mul(x, 2.0), [x.astype(np.float16)])

# S4: decorated subclass calling a decorated base through super()
@onnx_function
class Base:
    def __call__(self, x): return x * 2.0
@onnx_function
class Derived(Base):
    def __call__(self, x): return super().__call__(x) + 1.0
d = Derived()
trial("S4 decorated subclass -> super().__call__ of decorated base", lambda x: d(x), [x])

# S5: instances created inline in the traced function (INSTANCE_MAP2 is weak, keyed by id)
keep = Scale(3.0)
def s5(x):
    a = Scale(2.0)(x)
    b = keep(x)
    c = Scale(4.0)(x)
    return a + 10 * b + 100 * c
trial("S5 temporaries constructed inside the traced function", s5, [x])

# S6: boundary placed inside a lax.cond branch
@onnx_function
def inc(x): return x + 1.0
trial("S6 @onnx_function called inside a lax.cond branch",
      lambda x: jax.lax.cond(x[0] > 0, lambda v: inc(v), lambda v: v * 2.0, x), [x])

# S7: function returning a tuple
@onnx_function
def two(x): return x + 1.0, x * 2.0
trial("S7 tuple-returning function", lambda x: two(x)[1], [x])

# S8: runtime (traced) keyword argument
@onnx_function
def affine(x, scale): return x * scale
trial("S8 traced keyword argument", lambda x, a: affine(x, scale=a), [x, x])
