"""Call forms that the UNMODIFIED checkout already mishandles (property C19).

Each probe calls a library function in a form the library accepts outside
conversion and reports what happens while the same call is traced for export.
Run with:  PYTHONPATH=/tmp/wt8/C19 /venv/bin/python _seed/side_observations.py
"""

from __future__ import annotations

import warnings

import jax
import jax.numpy as jnp
import numpy as np
import onnxruntime as ort
from flax import nnx

from jax2onnx import to_onnx

warnings.filterwarnings("ignore")


def export_and_run(fn, *xs):
    model = to_onnx(fn, [jax.ShapeDtypeStruct(x.shape, x.dtype) for x in xs])
    sess = ort.InferenceSession(model.SerializeToString(), providers=["CPUExecutionProvider"])
    return sess.run(None, {i.name: x for i, x in zip(sess.get_inputs(), xs)})[0]


def probe(label, fn, *xs):
    try:
        expected = np.asarray(fn(*[jnp.asarray(x) for x in xs]))
    except Exception as exc:  # noqa: BLE001
        print(f"[skip] {label}: not valid outside conversion either ({type(exc).__name__}: {exc})")
        return
    try:
        got = export_and_run(fn, *xs)
    except NotImplementedError as exc:
        print(f"[explicit-reject] {label}: {exc}")
        return
    except Exception as exc:  # noqa: BLE001
        msg = str(exc).replace("\n", " ")[:140]
        print(f"[VALID CALL FAILS] {label}: {type(exc).__name__}: {msg}")
        return
    same = got.shape == expected.shape and got.dtype == expected.dtype and np.allclose(got, expected, atol=1e-5)
    if same:
        print(f"[ok] {label}")
    else:
        print(f"[SILENTLY DIFFERENT] {label}: jax={expected.tolist()} ({expected.dtype}) onnx={got.tolist()} ({got.dtype})")


x1 = np.array([-2.0, -1.0, 0.5, 2.0], np.float32)
x2 = np.arange(6, dtype=np.float32).reshape(2, 3)
xi = np.arange(6, dtype=np.int32).reshape(2, 3)
idx = np.array([2, 0], np.int32)

probe("jax.nn.celu(x, 0.3)            positional alpha", lambda x: jax.nn.celu(x, 0.3), x1)
probe("jax.nn.elu(x, 0.3)             positional alpha", lambda x: jax.nn.elu(x, 0.3), x1)
probe("jax.nn.leaky_relu(x, 0.3)      positional slope", lambda x: jax.nn.leaky_relu(x, 0.3), x1)
probe("jax.nn.gelu(x, False)          positional approximate", lambda x: jax.nn.gelu(x, False), x1)
probe("jnp.arange(1, stop=5)", lambda x: x[:4] + jnp.arange(1, stop=5), x1)
probe("jnp.arange(0, 4, 1, jnp.float32)  positional dtype", lambda x: x[:4] + jnp.arange(0, 4, 1, jnp.float32), x1)
probe("jnp.add.reduce(x, axis=0)      ufunc method", lambda x: jnp.add.reduce(x, axis=0), x2)
probe("jnp.mean(x, where=None)        library default passed explicitly", lambda x: jnp.mean(x, where=None), x2)
probe("jnp.reshape(x, shape=(3, 2))   library's own keyword name", lambda x: jnp.reshape(x, shape=(3, 2)), x2)
probe("jnp.sort(x, descending=True)", lambda x: jnp.sort(x, descending=True), x2)
probe("jnp.take(x, idx, 1)            positional axis", lambda x, i: jnp.take(x, i, 1), x2, idx)
probe("jnp.linspace(0., 1., 5, False) positional endpoint", lambda x: x[0, 0] + jnp.linspace(0.0, 1.0, 5, False), x2)
probe("jnp.prod(x, 0, None, None, True) positional keepdims", lambda x: jnp.prod(x, 0, None, None, True), x2)
probe("jnp.concatenate((x, x), axis=None)", lambda x: jnp.concatenate((x, x), axis=None), x2)
probe("jnp.clip(int_x, 0.5, 2.5)      float bounds on int array", lambda x: jnp.clip(x, 0.5, 2.5), xi)
probe("jnp.tile(A=x, reps=2)          library's own keyword name", lambda x: jnp.tile(A=x, reps=2), x2)
probe("jnp.split(ary=x, indices_or_sections=3, axis=1)[0]", lambda x: jnp.split(ary=x, indices_or_sections=3, axis=1)[0], x2)
probe("jax.lax.fori_loop(0, 3, body, x, unroll=1)", lambda x: jax.lax.fori_loop(0, 3, lambda i, c: c + 1.0, x, unroll=1), x1)
probe("nnx.softmax(x, where=mask)", lambda x: nnx.softmax(x, where=x > 1.0), x2)
probe("nnx.log_softmax(x, -1, mask)", lambda x: nnx.log_softmax(x, -1, x > 1.0), x2)
probe("nnx.avg_pool(x, (2,), (1,))    positional window/strides", lambda x: nnx.avg_pool(x[None], (2,), (1,)), x2)
probe("jax.nn.standardize(x, algorithm='fast') newer keyword", lambda x: jax.nn.standardize(x, algorithm="fast"), x2)

ln = nnx.LayerNorm(3, rngs=nnx.Rngs(0))
probe("nnx.LayerNorm()(x, mask=None)", lambda x: ln(x, mask=None), x2)
bn = nnx.BatchNorm(3, use_running_average=True, rngs=nnx.Rngs(0))
probe("nnx.BatchNorm(use_running_average=True)(x, use_running_average=False)", lambda x: bn(x, use_running_average=False), x2)
emb = nnx.Embed(5, 3, rngs=nnx.Rngs(0))
probe("nnx.Embed()(idx, out_sharding=None)", lambda i: emb(i, out_sharding=None), idx)
lin = nnx.Linear(3, 2, rngs=nnx.Rngs(0))
probe("nnx.Linear()(x, None)          positional out_sharding", lambda x: lin(x, None), x2)
