"""Side observation on the UNMODIFIED checkout: a Range operand that is an
initializer *and* a graph input (an overridable default, ONNX IR >= 4) is treated
as a compile-time constant by the range proof, so a narrowing pair is folded
although the caller may override the operand at run time."""
import sys
import numpy as np
import onnx_ir as ir
import onnxruntime as ort
from jax2onnx.converter.ir_optimizations import optimize_graph

I64, I8 = ir.DataType.INT64, ir.DataType.INT8


def build():
    def c(name, v):
        return ir.val(name, I64, (), const_value=ir.tensor(np.asarray(v, np.int64)))

    start, limit, delta = c("start", 0), c("limit", 4), c("delta", 1)
    rng = ir.val("rng", I64, (None,))
    nar = ir.val("nar", I8, (None,))
    out = ir.val("out", I64, (None,))
    nodes = [
        ir.Node("", "Range", [start, limit, delta], outputs=[rng], name="Range"),
        ir.Node("", "Cast", [rng], outputs=[nar], name="C1",
                attributes=[ir.Attr("to", ir.AttributeType.INT, int(I8.value))]),
        ir.Node("", "Cast", [nar], outputs=[out], name="C2",
                attributes=[ir.Attr("to", ir.AttributeType.INT, int(I64.value))]),
    ]
    g = ir.Graph(name="g", inputs=[limit], outputs=[out], nodes=nodes,
                 initializers=[start, limit, delta])
    m = ir.Model(graph=g, ir_version=10)
    m.opset_imports[""] = 21
    return m


def run(model, feeds):
    s = ort.InferenceSession(ir.to_proto(model).SerializeToString())
    return s.run(None, feeds)[0]

feeds = {"limit": np.asarray(300, np.int64)}
ref = run(build(), feeds)
opt_model = optimize_graph(build())
print("casts left:", [n.name for n in opt_model.graph if n.op_type == "Cast"])
got = run(opt_model, feeds)
print("reference tail:", ref[-3:], "optimized tail:", got[-3:])
sys.exit(0 if np.array_equal(ref, got) else 1)
