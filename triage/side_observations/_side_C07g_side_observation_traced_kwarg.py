import numpy as np, jax, jax.numpy as jnp
import onnxruntime as ort
from jax2onnx import to_onnx, onnx_function

@onnx_function
def affine(x, scale=None, shift=None):
    return x * scale - shift * shift

def model(x, a, b):
    u = affine(x, scale=a, shift=b)
    v = affine(x, shift=a, scale=b)
    return u + 10.0 * v

rng = np.random.default_rng(0)
x, a, b = [rng.normal(size=(4,)).astype(np.float32) for _ in range(3)]
print(jax.make_jaxpr(model)(x, a, b))
m = to_onnx(model, [jax.ShapeDtypeStruct((4,), jnp.float32)]*3)
print([ (f.domain, f.name) for f in m.functions])
for n in m.graph.node: print(n.op_type, n.domain, list(n.input), list(n.output))
sess = ort.InferenceSession(m.SerializeToString())
out = sess.run(None, {i.name: v for i, v in zip(sess.get_inputs(), (x, a, b))})[0]
print(out, model(x, a, b))
