"""Reproducers for property-C09 violations that exist on the UNMODIFIED checkout."""
import numpy as np, jax, jax.numpy as jnp, onnx
import onnxruntime as ort
from onnx import TensorProto
from onnx.reference import ReferenceEvaluator
from jax2onnx import to_onnx

def run_double(name, f, xs, use_ref=False):
    specs = [jax.ShapeDtypeStruct(x.shape, x.dtype) for x in xs]
    m = to_onnx(f, specs, enable_double_precision=True)
    feed = {i.name: x for i, x in zip(m.graph.input, xs)}
    if use_ref:
        got = ReferenceEvaluator(m).run(None, feed)[0]
    else:
        so = ort.SessionOptions(); so.log_severity_level = 3
        got = ort.InferenceSession(m.SerializeToString(), so).run(None, feed)[0]
    with jax.enable_x64(True):
        ref = np.asarray(f(*[jnp.asarray(x) for x in xs]))
    rel = np.max(np.abs(got - ref) / np.maximum(np.abs(ref), 1e-300))
    print(f"{name}: ops={[n.op_type for n in m.graph.node]} got={got.dtype} ref={ref.dtype} max_rel_err={rel:.3e}")

xf = np.array([0.3, -1.2, 2.5, 0.01], dtype=np.float64)
yf = np.array([0.7, 1.1, -0.4, 2.0], dtype=np.float64)
xi = np.array([1, 2, 3, 7], dtype=np.int64)

# 1. atan2 takes an explicit float32 detour in double mode (Cast->Atan->Cast)
run_double("S1 arctan2", lambda x, y: jnp.arctan2(x, y), [xf, yf])
# 2. activation hyper-parameters travel as ONNX FLOAT attributes (float32)
run_double("S2 leaky_relu(negative_slope=0.01)", lambda x: jax.nn.leaky_relu(x, negative_slope=0.01), [xf], use_ref=True)
# 3. jnp.divide(int_array, python_float): the literal is cast to the *integer* dtype of the lhs -> 0 -> inf
run_double("S3 jnp.divide(int64, 0.3)", lambda x: jnp.divide(x, 0.3), [xi])

# 4. single precision: a float64 jax.Array captured by the callable (e.g. module parameters created
#    while jax_enable_x64 was on) is exported as a DOUBLE initializer followed by Cast(to=FLOAT)
with jax.enable_x64(True):
    w = jnp.asarray(np.array([0.1, 0.2, 0.3]))
m = to_onnx(lambda x: jnp.sin(x) * 0.1 + w, [jax.ShapeDtypeStruct((3,), jnp.float32)], enable_double_precision=False)
doubles = [(i.name, "initializer") for i in m.graph.initializer if i.data_type == TensorProto.DOUBLE]
print("S4 single-precision export, captured float64 jax.Array: DOUBLE tensors =", doubles,
      "| nodes =", [(n.op_type, [a.i for a in n.attribute if a.name == 'to']) for n in m.graph.node])
