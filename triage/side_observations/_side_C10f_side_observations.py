"""Reproducers for defects seen on the UNMODIFIED checkout (independent of the seed)."""
import numpy as np, jax, jax.numpy as jnp, onnxruntime as ort
from jax import lax
from jax2onnx import to_onnx

def export_run(fn, *args):
    model = to_onnx(fn, list(args), model_name="m")
    sess = ort.InferenceSession(model.SerializeToString())
    return sess.run(None, {i.name: np.asarray(a) for i, a in zip(sess.get_inputs(), args)})

x = np.arange(12, dtype=np.float32).reshape(3, 4) + 1
i3 = np.array([0, 2, 1], dtype=np.int32)

print("== A. vmap(dynamic_update_slice) with operand AND start index batched: silently wrong")
fA = lambda: jax.vmap(lambda r, i: lax.dynamic_update_slice(r, jnp.ones(2, jnp.float32), (i,)))
exp = np.asarray(fA()(x, i3))
try:
    got = export_run(fA(), x, i3)[0]
    print(" equal:", np.allclose(got, exp)); print(" onnx:\n", got, "\n jax:\n", exp)
except Exception as e:
    print(" export raised", type(e).__name__, str(e)[:200])

print("== B. the same checkpointed function applied twice (same shapes): export raises for jnp.mean / .at[].add bodies")
for name, body in {"mean": lambda v: jnp.mean(v, axis=1, keepdims=True) * v,
                   "scatter_add": lambda v: v.at[1].add(2.0)}.items():
    g = jax.checkpoint(body)
    try:
        export_run(lambda z: g(z) + g(z * 2.0 + 0.25), x)
        print(" ", name, "exported fine")
    except Exception as e:
        print(" ", name, "export raised", type(e).__name__, str(e)[:160])

print("== C. export leaves jax2onnx primitives in jax.checkpoint's trace cache: plain JAX call AFTER export breaks")
for name, body in {"concatenate": lambda v: jnp.concatenate([v, v * 2], axis=0),
                   "stack": lambda v: jnp.stack([v, v * 3]).sum(0),
                   "tile": lambda v: jnp.tile(v, (1, 2)),
                   "einsum": lambda v: jnp.einsum("ij,kj->ik", v, v),
                   "fori_loop": lambda v: lax.fori_loop(0, 3, lambda i, c: c * 1.1, v)}.items():
    g = jax.checkpoint(body)
    f = lambda z: g(z)
    try:
        export_run(f, x); exported = "export ok"
    except Exception as e:
        exported = f"export raised {type(e).__name__}"
    try:
        f(jnp.asarray(x)); after = "plain JAX call after export ok"
    except Exception as e:
        after = f"plain JAX call after export raised {type(e).__name__}: {str(e)[:110]}"
    print(f"  {name}: {exported}; {after}")
