"""Side observation (UNMODIFIED checkout): vmap over jax.nn.dot_product_attention
with a per-example bias/mask of rank < 3.

Per example: q (T,N,H), k/v (S,N,H), bias (T,S).  JAX left-pads the bias to
(1,1,T,S).  The plugin's batching rule puts the mapped axis in front of every
operand and re-binds the primitive with q (B,T,N,H) and bias (B,T,S); the
primitive then left-pads the bias to (1,B,T,S), i.e. the vmapped axis of the
bias is read as the *head* axis.
  - B == N : silently wrong numbers
  - B != N : export fails with a broadcasting error
"""
import numpy as np, jax
import onnxruntime as ort
from jax2onnx.user_interface import to_onnx

def run(fn, args, name):
    m = to_onnx(fn, [jax.ShapeDtypeStruct(a.shape, a.dtype) for a in args], model_name=name)
    sess = ort.InferenceSession(m.SerializeToString())
    feeds = {i.name: np.asarray(a) for i, a in zip(sess.get_inputs(), args)}
    return sess.run(None, feeds)

rng = np.random.default_rng(0)
for B, N in ((2, 2), (3, 2)):
    T, S, H = 3, 5, 4
    q = rng.normal(size=(B, T, N, H)).astype(np.float32)
    k = rng.normal(size=(B, S, N, H)).astype(np.float32)
    v = rng.normal(size=(B, S, N, H)).astype(np.float32)
    bias = rng.normal(size=(B, T, S)).astype(np.float32)

    def f(q, k, v, bias):
        return jax.vmap(lambda q, k, v, b: jax.nn.dot_product_attention(q, k, v, bias=b))(q, k, v, bias)

    ref = np.asarray(f(q, k, v, bias))
    try:
        got = run(f, [q, k, v, bias], "dpa_bias")[0]
        print(f"B={B} N={N}: shapes {got.shape} vs {ref.shape}, max abs diff {np.abs(got - ref).max():.4g}")
    except Exception as e:
        print(f"B={B} N={N}: export failed: {type(e).__name__}: {str(e)[:160]}")
