import sys, hashlib
import jax, jax.numpy as jnp
from jax import lax
from jax2onnx import to_onnx

def body(c, x):
    return c, jax.nn.softmax(x)

def fn(xs):
    return lax.scan(body, 0.0, xs)[1]

if len(sys.argv) > 1 and sys.argv[1] == "warm":
    fn(jnp.ones((3, 4), jnp.float32))  # ordinary eager run of the model before exporting
m = to_onnx(fn, inputs=[(3, 4)], model_name="m")
b = m.SerializeToString(deterministic=True)
def ops(g, acc):
    for n in g.node:
        acc.append(n.op_type)
        for a in n.attribute:
            if a.HasField("g"): ops(a.g, acc)
    return acc
print(hashlib.sha256(b).hexdigest()[:16], ops(m.graph, []))
