import sys, hashlib
import jax, jax.numpy as jnp
from jax import lax
from flax import nnx
from jax2onnx import to_onnx, onnx_function

@onnx_function
class Blk(nnx.Module):
    def __init__(self, seed):
        self.l = nnx.Linear(4, 4, rngs=nnx.Rngs(seed))
    def __call__(self, x):
        return jnp.tanh(self.l(x))

a = Blk(0); b = Blk(1)

def body(x):
    return a(x)

def fn(xs):
    return jax.checkpoint(body)(xs)

def other(x):
    return b(x)

def h(m): return hashlib.sha256(m.SerializeToString(deterministic=True)).hexdigest()[:16]
m1 = to_onnx(fn, inputs=[(3, 2, 4)], model_name="m")
print("first ", h(m1))
if len(sys.argv) > 1:
    mo = to_onnx(other, inputs=[(2, 4)], model_name="o")
m2 = to_onnx(fn, inputs=[(3, 2, 4)], model_name="m")
print("second", h(m2))
import numpy as np
def inits(m):
    out = {}
    for f in m.functions:
        for n in f.node:
            if n.op_type == "Constant":
                from onnx import numpy_helper
                arr = numpy_helper.to_array(n.attribute[0].t)
                if arr.size > 4: out[f.name + "/" + n.output[0]] = float(arr.sum())
    for i in m.graph.initializer:
        from onnx import numpy_helper
        arr = numpy_helper.to_array(i)
        if arr.size > 4: out[i.name] = float(arr.sum())
    return out
print(inits(m1)); print(inits(m2))
