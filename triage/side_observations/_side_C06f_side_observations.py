"""Side observations on the UNMODIFIED checkout (independent of the seeded change).

Run: cd <worktree> && PYTHONPATH=<worktree> /venv/bin/python _seed/side_observations.py
"""
import jax, jax.numpy as jnp, numpy as np, onnxruntime as ort
from jax import lax
from jax2onnx import to_onnx

ort.set_default_logger_severity(3)
f32 = np.float32


def compare(name, fn, specs, inputs):
    print("==", name)
    try:
        model = to_onnx(fn, inputs=specs)
        sess = ort.InferenceSession(model.SerializeToString(), providers=["CPUExecutionProvider"])
        names = [i.name for i in sess.get_inputs()]
        got = sess.run(None, dict(zip(names, [np.asarray(a) for a in inputs])))
        want = [np.asarray(o) for o in jax.tree_util.tree_leaves(fn(*inputs))]
        for w, g in zip(want, got):
            same = w.shape == g.shape and w.dtype == g.dtype and np.allclose(w, g)
            print("   jax", w.dtype, w.shape, w.tolist(), "| onnx", g.dtype, g.shape, g.tolist(), "OK" if same else "MISMATCH")
    except Exception as e:  # noqa: BLE001
        print("   EXC", type(e).__name__, str(e)[:400])


S = jax.ShapeDtypeStruct

# (1) scan whose body contains a scatter (static update extent 2) and whose
#     per-step element has rank >= 1: the exporter Expand()s the per-step slice
#     to the scatter extent (scan.py, "scan_per_step_expand").
def scan_scatter_passthrough(xs):          # xs: (T, 1, 3)
    def body(c, x):                        # x: (1, 3)
        buf = jnp.zeros((4, 3), x.dtype).at[jnp.array([0, 2])].add(jnp.ones((2, 3), x.dtype))
        return c + buf.sum(), x * 2.0      # ys per step must stay (1, 3)
    return lax.scan(body, jnp.float32(0), xs)

compare("scan+scatter, per-step (1,3) passthrough", scan_scatter_passthrough,
        [S((5, 1, 3), jnp.float32)], [np.arange(15, dtype=f32).reshape(5, 1, 3)])

def scan_scatter_index(xs):
    def body(c, x):
        buf = jnp.zeros((4, 3), x.dtype).at[jnp.array([0, 2])].add(jnp.stack([x[0], x[0] * 2]))
        return c + buf.sum(), x * 2.0
    return lax.scan(body, jnp.float32(0), xs)

compare("scan+scatter, per-step (1,3) indexed", scan_scatter_index,
        [S((5, 1, 3), jnp.float32)], [np.arange(15, dtype=f32).reshape(5, 1, 3)])

# (2) fori_loop with a Python-bool carry: carried value comes back as int32.
compare("fori_loop bool carry",
        lambda x: lax.fori_loop(0, 3, lambda i, c: (c[0] - 1.0, c[1] & (c[0] > 0)), (x, True)),
        [S((), jnp.float32)], [f32(5.0)])

# (3) while_loop whose operands are all literals: int32 result exported as int64.
compare("while_loop literal init",
        lambda x: (lax.while_loop(lambda v: v < 5, lambda v: v + 1, 0), x),
        [S((), jnp.float32)], [f32(1.0)])

# (1c) same as (1) but per-step leading dim 3 (!= scatter extent 2, != 1).
def scan_scatter_dim3(xs):                 # xs: (T, 3, 3)
    def body(c, x):
        buf = jnp.zeros((4, 3), x.dtype).at[jnp.array([0, 2])].add(jnp.ones((2, 3), x.dtype))
        return c + buf.sum(), x * 2.0
    return lax.scan(body, jnp.float32(0), xs)

compare("scan+scatter, per-step (3,3) passthrough", scan_scatter_dim3,
        [S((2, 3, 3), jnp.float32)], [np.arange(18, dtype=f32).reshape(2, 3, 3)])
