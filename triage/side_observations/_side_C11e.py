"""Reproducers for defects that exist on the UNMODIFIED checkout (independent of patch.diff)."""
import numpy as np, jax, jax.numpy as jnp, onnx
import onnxruntime as ort
from jax2onnx import to_onnx, onnx_function


def run(model, *args):
    opts = ort.SessionOptions(); opts.log_severity_level = 4
    s = ort.InferenceSession(model.SerializeToString(), opts, providers=["CPUExecutionProvider"])
    return s.run(None, {i.name: a for i, a in zip(s.get_inputs(), args)})[0]


def ops(m):
    out = [(n.domain, n.op_type) for n in m.graph.node]
    for f in m.functions:
        out += [("fn:" + f.name, n.op_type) for n in f.node]
    return out


print("S1: Swish rewrite (opset>=24) ignores the node domain: x * <user function named Sigmoid>(x)")
@onnx_function
def Sigmoid(x):            # user function whose ONNX function name is 'Sigmoid'
    return jnp.tanh(x) + 2.0
def f1(x):
    return x * Sigmoid(x)
x = np.linspace(-2, 2, 10, dtype=np.float32).reshape(2, 5)
for opset in (23, 24):
    m = to_onnx(f1, [(2, 5)], opset=opset)
    print("  opset", opset, ops(m), "matches JAX:", np.allclose(run(m, x), np.asarray(f1(x)), atol=1e-5))

print("S2: bfloat16 Sin at opset 21 (Sin-7 has no bfloat16; bfloat16 arrives with Sin-22)")
for opset in (21, 22):
    m = to_onnx(lambda v: jnp.sin(v), [jax.ShapeDtypeStruct((3,), jnp.bfloat16)], opset=opset)
    try:
        onnx.checker.check_model(m, full_check=True); print("  opset", opset, "checker ok")
    except Exception as e:
        print("  opset", opset, "checker:", str(e).strip()[:160])

print("S3: jnp.arange(dynamic stop, dtype=uint8/int8/uint32) emits Range on a type no Range version accepts")
for dt in (jnp.uint8, jnp.int8, jnp.uint32):
    m = to_onnx(lambda stop: jnp.arange(stop, dtype=dt), [jax.ShapeDtypeStruct((), jnp.int32)], opset=23)
    rng = [n for n in m.graph.node if n.op_type == "Range"][0]
    inf = onnx.shape_inference.infer_shapes(m)
    et = {v.name: v.type.tensor_type.elem_type for v in list(inf.graph.value_info) + list(inf.graph.output)}
    print("  ", dt.__name__, "Range output elem_type:", onnx.helper.tensor_dtype_to_string(et[rng.output[0]]))
    try:
        onnx.checker.check_model(m, full_check=True); print("     checker ok")
    except Exception as e:
        print("     checker:", str(e).strip()[:160])

print("S4 (not opset specific): dynamic_update_slice start index is wrapped twice (jaxpr + plugin)")
def f4(ref, upd, idx):
    return jax.lax.dynamic_update_slice(ref, upd, (0, idx, 0))
ref = np.arange(30, dtype=np.float32).reshape(2, 5, 3); upd = -np.ones((2, 2, 3), np.float32)
specs = [jax.ShapeDtypeStruct(ref.shape, np.float32), jax.ShapeDtypeStruct(upd.shape, np.float32), jax.ShapeDtypeStruct((), np.int32)]
m = to_onnx(f4, specs, opset=23)
for idx in (-7, -4):
    print("  start", idx, "matches JAX:", np.array_equal(run(m, ref, upd, np.asarray(idx, np.int32)), np.asarray(f4(ref, upd, np.int32(idx)))))
