"""Reproducers for C01 violations that exist on the UNMODIFIED checkout
(independent of the seeded change; none of them involves jnp.select).

cd /tmp/wt6/C01 && PYTHONPATH=/tmp/wt6/C01 /venv/bin/python _seed/side_observations.py
"""
import numpy as np, jax, jax.numpy as jnp
from jax import lax
import onnxruntime as ort
from jax2onnx import to_onnx


def run(fn, args):
    m = to_onnx(fn, [jax.ShapeDtypeStruct(a.shape, a.dtype) for a in args], model_name="side")
    so = ort.SessionOptions(); so.log_severity_level = 4
    sess = ort.InferenceSession(m.SerializeToString(), so)
    return sess.run(None, {i.name: a for i, a in zip(sess.get_inputs(), args)})


def report(title, fn, args, rtol=1e-5, atol=1e-6):
    ref = np.asarray(fn(*args))
    try:
        got = run(fn, args)[0]
        same = got.shape == ref.shape and np.allclose(got, ref, rtol=rtol, atol=atol, equal_nan=True)
        print(f"--- {title}: {'agrees' if same else 'DIFFERS'}")
        if not same:
            print("    jax :", ref.shape, ref.ravel()[:12].tolist())
            print("    onnx:", got.shape, got.ravel()[:12].tolist())
    except Exception as e:  # export or runtime failure
        print(f"--- {title}: FAILS ({type(e).__name__}: {str(e)[:140]!r})")
        print("    jax :", ref.shape, ref.ravel()[:12].tolist())


x6 = np.arange(6, dtype=np.float32)

# 1. lax.gather window whose constant start index must be clamped (mode=clip)
dn = lax.GatherDimensionNumbers(offset_dims=(0,), collapsed_slice_dims=(), start_index_map=(0,))
report("1 gather, constant out-of-range window start (clip)",
       lambda x: lax.gather(x, jnp.array([5]), dn, slice_sizes=(3,), mode="clip"), [x6])

# 2. jax.image.resize nearest with a non-integer / down-scaling factor (tie-breaking)
img = np.arange(36, dtype=np.float32).reshape(6, 6)
for shp in [(3, 3), (5, 5), (9, 9)]:
    report(f"2 image.resize nearest 6x6 -> {shp}",
           lambda x, shp=shp: jax.image.resize(x, shp, method="nearest", antialias=False), [img])

# 3. lax.cumlogsumexp for large magnitudes (Exp -> CumSum -> Log without max shift)
report("3 cumlogsumexp large values",
       lambda x: lax.cumlogsumexp(x, axis=0), [np.array([100.0, 101.0, 99.0], dtype=np.float32)])

# 4. log1p / expm1 for small magnitudes (Log(1+x), Exp(x)-1)
tiny = np.array([1e-5, -3e-6, 2e-7], dtype=np.float32)
report("4a log1p small values (rtol=1e-4, atol=0)", lambda x: jnp.log1p(x), [tiny], rtol=1e-4, atol=0.0)
report("4b expm1 small values (rtol=1e-4, atol=0)", lambda x: jnp.expm1(x), [tiny], rtol=1e-4, atol=0.0)

# 5. vmapped dynamic_slice over a 2-D operand (fails at run time for any start vector)
x64 = np.arange(24, dtype=np.float32).reshape(6, 4)
idx = np.asarray([0, 1, 4], dtype=np.int32)
report("5 vmap(dynamic_slice) over 2-D operand",
       lambda x: jax.vmap(lambda i: lax.dynamic_slice(x, (i, 0), (2, 4)))(idx), [x64])

