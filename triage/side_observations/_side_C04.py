"""Reproducers for C04 violations that already exist on the UNMODIFIED checkout.
Run: cd /tmp/wt4/C04 && PYTHONPATH=/tmp/wt4/C04 /venv/bin/python _seed/side_observations.py
"""
import numpy as np
import jax.numpy as jnp
import onnxruntime as ort
from jax2onnx import to_onnx

ort.set_default_logger_severity(4)


def run(fn, spec, sizes):
    model = to_onnx(fn, inputs=[spec], model_name="side_obs")
    sess = ort.InferenceSession(model.SerializeToString())
    for b in sizes:
        x = np.ones([b if isinstance(d, str) else d for d in spec], np.float32)
        exp = np.asarray(fn(jnp.asarray(x)))
        try:
            (got,) = sess.run(None, {sess.get_inputs()[0].name: x})
            ok = got.shape == exp.shape and np.allclose(got, exp)
            print(f"   B={b}: JAX {exp.ravel()[:1]} shape {exp.shape} | ONNX {got.ravel()[:1]} shape {got.shape} -> {'ok' if ok else 'MISMATCH'}")
        except Exception as e:
            print(f"   B={b}: ONNX runtime error: {str(e)[:110]}")


print("1) jnp.concatenate along a symbolic axis: abstract_eval says (B,N) instead of (2*B,N);")
print("   the concat output then becomes the recorded origin of 'B' -> x.shape[0] evaluates to 2*B")
run(lambda x: jnp.concatenate([x, x], axis=0) * x.shape[0], ("B", 3), [1, 2, 3])
print("1b) same root cause, reshape after concat builds the wrong target shape")
run(lambda x: jnp.concatenate([x, x], axis=0).reshape(2, x.shape[0], x.shape[1]), ("B", "N"), [1, 2, 3])
print("2) floor division of a dim expression with a negative numerator: LowerDimExpr emits ONNX Div")
print("   (truncates toward zero) where JAX floors")
run(lambda x: x * ((x.shape[0] - 5) // 2), ("B", 3), [1, 2, 3, 4, 5, 8])
