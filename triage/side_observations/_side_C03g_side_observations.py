"""Reproducers for C03 violations that exist on the UNMODIFIED checkout
(independent of the seeded change).  Prints one line per scenario."""
import jax, jax.numpy as jnp, numpy as np, onnx
from jax import lax
from jax2onnx import to_onnx, onnx_function
import onnxruntime as ort

ort.set_default_logger_severity(3)


def check(name, fn, inputs, **kw):
    try:
        m = to_onnx(fn, inputs, **kw)
    except Exception as e:
        print(name, "EXPORT-ERR", type(e).__name__, str(e)[:200])
        return
    try:
        onnx.checker.check_model(m, full_check=True)
        onnx.shape_inference.infer_shapes(m, strict_mode=True)
        ort.InferenceSession(m.SerializeToString())
        print(name, "ok")
    except Exception as e:
        print(name, "VIOLATION", type(e).__name__, str(e).replace("\n", " ")[:260])


# S1: FunctionKey ignores weak_type -> one body serves a weak and a strong scalar call
@onnx_function
def scale(x, s):
    return x * s


def s1(x):
    return scale(x, 2), scale(x, jnp.asarray(2, jnp.int32))


check("S1 weak-vs-strong scalar arg", s1, [jax.ShapeDtypeStruct((3,), jnp.int16)])


def s1f(x):
    return scale(x, 2.0), scale(x, jnp.float32(2.0))


check("S1 weak-vs-strong float arg", s1f, [jax.ShapeDtypeStruct((3,), jnp.float16)])


# S2: scan casts every integer result to INT32 (INT64 in double precision)
def s2(x):
    def body(c, _):
        return c + jnp.int16(1), c

    c, ys = lax.scan(body, x, None, length=3)
    return c + x, ys + x


check("S2 scan int16 carry", s2, [jax.ShapeDtypeStruct((3,), jnp.int16)])


def s2b(x, xs):
    c, ys = lax.scan(lambda c, e: (c + e, c * e), x, xs)
    return c + x, ys + x


check("S2 scan uint8 with xs", s2b,
      [jax.ShapeDtypeStruct((3,), jnp.uint8), jax.ShapeDtypeStruct((4, 3), jnp.uint8)])
check("S2 scan int32 with xs, double precision", s2b,
      [jax.ShapeDtypeStruct((3,), jnp.int32), jax.ShapeDtypeStruct((4, 3), jnp.int32)],
      enable_double_precision=True)


# S3: optimizer folds inverse pairs in a function body -> output aliases the input
@onnx_function
def rr(x):
    return x.reshape(1, 3).reshape(3)


check("S3 reshape pair in @onnx_function", lambda x: rr(x) + 1, [(3,)])


@onnx_function
def tt(x):
    return jnp.transpose(jnp.transpose(x))


check("S3 transpose pair in @onnx_function", lambda x: tt(x) + 1, [(3, 4)])


@onnx_function
def cc(x):
    return x.astype(jnp.int32).astype(jnp.int64).astype(jnp.int32)


check("S3 cast round trip in @onnx_function (double precision)", lambda x: cc(x) + 1,
      [jax.ShapeDtypeStruct((3,), jnp.int32)], enable_double_precision=True)
