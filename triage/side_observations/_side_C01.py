"""Reproducers for property-C01 violations that exist on the UNMODIFIED checkout
(independent of the seeded change; none of them uses @onnx_function)."""
import numpy as np, jax, jax.numpy as jnp
from jax import lax
import onnxruntime as ort
from jax2onnx import to_onnx

def run(fn, *args):
    m = to_onnx(fn, [jax.ShapeDtypeStruct(a.shape, a.dtype) for a in args])
    sess = ort.InferenceSession(m.SerializeToString(), providers=["CPUExecutionProvider"])
    return sess.run(None, {i.name: a for i, a in zip(sess.get_inputs(), args)})

def report(label, fn, *args):
    try:
        got = run(fn, *args)[0]
    except Exception as exc:  # noqa: BLE001
        print(f"{label}: export/run error {type(exc).__name__}: {str(exc)[:120]}")
        return
    exp = np.asarray(fn(*args))
    print(f"{label}\n   onnx: {np.asarray(got).ravel()[:6]}\n   jax : {exp.ravel()[:6]}")

r = np.random.RandomState(0)
x3 = r.randn(2, 3, 4).astype(np.float32)
report("S1 vmap(softmax(axis=1))", lambda x: jax.vmap(lambda v: jax.nn.softmax(v, axis=1))(x), x3)
report("S1b vmap(log_softmax(axis=1))", lambda x: jax.vmap(lambda v: jax.nn.log_softmax(v, axis=1))(x), x3)
report("S1c vmap(logsumexp(axis=1))", lambda x: jax.vmap(lambda v: jax.nn.logsumexp(v, axis=1))(x), x3)
report("S1d vmap(glu(axis=1))", lambda x: jax.vmap(lambda v: jax.nn.glu(v, axis=1))(x), x3)
report("S1e vmap(standardize(axis=1))", lambda x: jax.vmap(lambda v: jax.nn.standardize(v, axis=1))(x), x3)
xs = r.randn(3, 3).astype(np.float32); ys = r.randn(3, 5).astype(np.float32)
report("S2 dot_general contracting lhs axis 0 (square lhs)", lambda a, b: lax.dot_general(a, b, (((0,), (0,)), ((), ()))), xs, ys)
tiny = np.array([1e-8, -1e-8, 3e-7], np.float32)
report("S3 expm1(tiny)", lambda x: jnp.expm1(x), tiny)
report("S3b log1p(tiny)", lambda x: jnp.log1p(x), tiny)
big = np.array([70000, -70000, 46341], np.int32)
report("S4 integer_pow int32 overflow (x**2)", lambda x: lax.integer_pow(x, 2), big)
w = np.array([2**24 + 1, 1, 2**24 + 3, 5], np.int32)
report("S5 reduce_window_sum int32 > 2**24", lambda x: lax.reduce_window(x, 0, lax.add, (2,), (1,), "VALID"), w)
