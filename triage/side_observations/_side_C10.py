"""Reproducers for defects seen on the UNMODIFIED checkout (independent of the seeded change).
Run: cd /tmp/wt4/C10 && PYTHONPATH=/tmp/wt4/C10 /venv/bin/python _seed/side_observations.py
Each line prints OK / MISMATCH / ERROR for "exported model == JAX".
"""
import numpy as np, jax, jax.numpy as jnp
from jax import lax
import onnxruntime as ort
from jax2onnx.user_interface import to_onnx


def check(name, make_fn, *inputs, warm=False, tol=1e-5):
    try:
        expected = jax.tree_util.tree_leaves(make_fn()(*inputs))
        fn = make_fn()
        if warm:  # evaluate the very same function object in plain JAX first
            fn(*inputs)
        model = to_onnx(fn, [jax.ShapeDtypeStruct(np.shape(i), np.asarray(i).dtype) for i in inputs], model_name="m")
        sess = ort.InferenceSession(model.SerializeToString())
        got = sess.run(None, {s.name: np.asarray(v) for s, v in zip(sess.get_inputs(), inputs)})
        ok = len(got) == len(expected) and all(
            np.shape(g) == np.shape(e) and np.allclose(g, e, atol=tol, rtol=tol) for g, e in zip(got, expected))
        print(("OK       " if ok else "MISMATCH ") + name)
        if not ok:
            for g, e in zip(got, expected):
                print("      onnx:", np.asarray(g).tolist()); print("      jax :", np.asarray(e).tolist())
    except Exception as ex:  # noqa: BLE001
        print("ERROR    " + name + " -> " + type(ex).__name__ + ": " + str(ex)[:160])


m = (np.arange(24, dtype=np.float32).reshape(2, 3, 4) / 7 - 1)
p = np.asarray([[1.0, 2.0, 3.0], [4.0, 5.0, 6.0]], np.float32)
x3 = np.array([-1.0, 0.0, 2.0], np.float32)

# S1  vmap(softmax) with a non-negative axis other than 0 (batch rule treats `axis` as a batched-array axis)
check("S1a vmap(softmax(axis=1)), in_axes=0", lambda: jax.vmap(lambda a: jax.nn.softmax(a, axis=1)), m)
check("S1b vmap(softmax(axis=-1)), in_axes=2", lambda: jax.vmap(lambda a: jax.nn.softmax(a, axis=-1), in_axes=2), m)
check("S1c control: vmap(softmax(axis=-1)), in_axes=0", lambda: jax.vmap(lambda a: jax.nn.softmax(a, axis=-1)), m)

# S2  lax.reshape ignores its `dimensions` parameter
check("S2a lax.reshape(x,(3,2),dimensions=(1,0))", lambda: (lambda a: lax.reshape(a, (3, 2), dimensions=(1, 0))), p)
# ... which makes JAX's own reduce_prod derivative wrong whenever the un-patched path is taken:
check("S2b grad(sum(y.prod(axis=1)))  [array method, not jnp.prod]", lambda: jax.grad(lambda y: jnp.sum(y.prod(axis=1))), p)
check("S2c grad(sum(lax.reduce_prod(y,(1,))))", lambda: jax.grad(lambda y: jnp.sum(lax.reduce_prod(y, axes=(1,)))), p)

# S3  multi-step history: a jax.checkpoint'ed function that was already evaluated in plain JAX is exported
#     from JAX's cached (un-patched) inner trace, so the converter's substituted primitives are bypassed;
#     together with S2 the exported gradient is wrong.  Same function, no warm-up -> fine.
mk = lambda: jax.grad(jax.checkpoint(lambda y: jnp.sum(jnp.prod(y, axis=1))))  # noqa: E731
check("S3a grad(checkpoint(prod)) cold", mk, p)
check("S3b grad(checkpoint(prod)) after one plain-JAX call of the same object", mk, p, warm=True)

# S4  celu JVP rule drops a numpy-scalar alpha (isinstance(alpha,(int,float)) is False for np.float32)
check("S4  grad(celu(x, alpha=np.float32(2)))", lambda: jax.grad(lambda x: jnp.sum(jax.nn.celu(x, alpha=np.float32(2.0)))), x3)

# S5  export failures (not silent)
check("S5a grad(leaky_relu(x, 0.2)) positional slope", lambda: jax.grad(lambda x: jnp.sum(jax.nn.leaky_relu(x, 0.2))), x3)
check("S5b vmap(matmul(a, v), in_axes=(1,None), out_axes=1)", lambda: jax.vmap(lambda a, b: jnp.matmul(a, b), in_axes=(1, None), out_axes=1), m, np.arange(4, dtype=np.float32))
# S6  leaky_relu derivative at exactly 0 (JAX: where(x >= 0, ...) -> 1 ; converter rule uses x > 0 -> slope)
check("S6  grad(leaky_relu(x, negative_slope=0.2)) at x==0", lambda: jax.grad(lambda x: jnp.sum(jax.nn.leaky_relu(x, negative_slope=0.2))), x3)
