"""Side observation on the UNMODIFIED checkout (independent of the seeded change).

If the optimizer aborts at pass index 0 (`name_fix`), the default non-strict
policy returns a model that is NOT valid whenever the same cached sub-jaxpr was
lowered inline twice into one graph by a plugin that reuses the out-var's name
(cos/add/mul/... have no "already produced -> fresh name" guard; lt/max do).
Examples: two lax.while_loop calls sharing cond_fn (the condition is evaluated
in the outer graph once per loop), or one jax.checkpoint'ed function called twice.
Only NameFixPass (pass 0) repairs the duplicate names.
Exit 1 = invalid model returned (observation reproduced), 0 = not reproduced.
"""
import logging, sys
import numpy as np, jax, jax.numpy as jnp, onnx
from jax import lax
from jax2onnx import to_onnx
from jax2onnx.converter import ir_optimizations as opt

logging.disable(logging.CRITICAL)


def _boom(*_a, **_k):
    raise RuntimeError("injected fault in optimizer pass 0")


passes = list(opt._OPTIMIZER_PASSES)
assert passes[0].name == "name_fix"
passes[0] = opt._OptimizerPass(name="name_fix", model_runner=_boom)
opt._OPTIMIZER_PASSES = tuple(passes)


def cond_fn(s):
    return jnp.cos(s[1]).sum() * 2.0 + 1.0 < 100.0


def body_fn(s):
    return (s[0] + 1, s[1] * 2 + 1)


def two_whiles(a):
    r1 = lax.while_loop(cond_fn, body_fn, (0, a))[1]
    r2 = lax.while_loop(cond_fn, body_fn, (1, r1 * 0.001))[1]
    return r1 + r2


ck = jax.checkpoint(lambda t: jnp.cos(t) * 2.0 + 1.0)


def two_remats(a):
    return ck(a) + ck(a * 3)


x = np.arange(12, dtype=np.float32).reshape(3, 4)
bad = 0
for name, fn in [("two_whiles", two_whiles), ("two_remats", two_remats)]:
    model = to_onnx(fn, [jax.ShapeDtypeStruct(x.shape, x.dtype)])  # default policy: no raise
    try:
        onnx.checker.check_model(model)
        print(name, "valid")
    except Exception as exc:  # noqa: BLE001
        bad += 1
        print(name, "INVALID:", str(exc).splitlines()[0])
sys.exit(1 if bad else 0)
