"""Side observation (independent of the seeded change): enable_double_precision=True,
a float32 intermediate + float32 constant, outputs_as_nchw=[0]."""
import jax, jax.numpy as jnp, numpy as np, onnxruntime as ort
from jax2onnx import to_onnx
S = (2, 3, 4, 5)
fn = lambda x: x.astype(jnp.float32) + jnp.ones(S, jnp.float32)
spec = [jax.ShapeDtypeStruct(S, jnp.float64)]
x = np.random.default_rng(0).standard_normal(S)
plain = to_onnx(fn, spec, enable_double_precision=True)
sess = ort.InferenceSession(plain.SerializeToString(), providers=["CPUExecutionProvider"])
ref = sess.run(None, {sess.get_inputs()[0].name: x})[0]
print("plain export runs, output dtype", ref.dtype, [n.op_type for n in plain.graph.node])
flagged = to_onnx(fn, spec, enable_double_precision=True, outputs_as_nchw=[0])
print("flagged nodes", [n.op_type for n in flagged.graph.node],
      "declared output elem_type", flagged.graph.output[0].type.tensor_type.elem_type)
try:
    s2 = ort.InferenceSession(flagged.SerializeToString(), providers=["CPUExecutionProvider"])
    got = s2.run(None, {s2.get_inputs()[0].name: x})[0]
    print("flagged export runs; matches:", np.allclose(got, ref.transpose(0, 3, 1, 2)), got.dtype)
except Exception as e:
    print("flagged export REJECTED by ORT:", str(e)[:300])
