import jax, jax.numpy as jnp, numpy as np, onnx
from jax2onnx import to_onnx
def show(m, tag):
    g = m.graph
    def d(v):
        t = v.type.tensor_type
        return (v.name, onnx.TensorProto.DataType.Name(t.elem_type), [ (x.dim_value if x.HasField('dim_value') else (x.dim_param or None)) for x in t.shape.dim])
    print(tag, "IN", [d(v) for v in g.input], "OUT", [d(v) for v in g.output], "NODES", [n.op_type for n in g.node])
S = jax.ShapeDtypeStruct
C = S((2,3), jnp.complex64)
cases = {
 "c_transpose": (lambda z: z.T, [C], {}),
 "c_reshape": (lambda z: z.reshape(6), [C], {}),
 "c_real": (lambda z: jnp.real(z), [C], {}),
 "c_abs": (lambda z: jnp.abs(z), [C], {}),
 "c_select": (lambda p, z: jnp.where(p, z, z), [S((2,3), jnp.bool_), C], {}),
 "c_concat": (lambda z: jnp.concatenate([z, z]), [C], {}),
 "c_eq": (lambda z: z == z, [C], {}),
 "c_cond": (lambda p, z: jax.lax.cond(p, lambda a: a, lambda a: a*2, z), [S((), jnp.bool_), C], {}),
 "r2c": (lambda x: x.astype(jnp.complex64), [(3,2)], {}),
 "c_x64": (lambda z: z*2, [C], {"enable_double_precision": True}),
 "c_neg": (lambda z: -z, [C], {}),
 "c_slice": (lambda z: z[0], [C], {}),
 "c_sum": (lambda z: z.sum(), [C], {}),
 "c_bcast": (lambda z: jnp.broadcast_to(z, (4,2,3)), [C], {}),
}
for k,(f,ins,kw) in cases.items():
    try:
        m = to_onnx(f, ins, **kw)
        show(m,k)
    except Exception as e:
        print(k, "EXC", type(e).__name__, str(e)[:200])
