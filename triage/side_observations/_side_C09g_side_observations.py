# Reproducers for behaviour of the UNMODIFIED checkout that already conflicts with C09.
# Run: cd /tmp/wt7/C09 && PYTHONPATH=/tmp/wt7/C09:/tmp/wt7/C09/_seed /venv/bin/python _seed/side_observations.py
import warnings; warnings.filterwarnings("ignore")
import numpy as np, jax, jax.numpy as jnp
from onnx.reference import ReferenceEvaluator
import onnxruntime as ort
from jax2onnx import to_onnx
from demo import double_precision_items

def run(m, feeds):
    try:
        s = ort.InferenceSession(m.SerializeToString())
        return s.run(None, {i.name: v for i, v in zip(s.get_inputs(), feeds)})[0], "ort"
    except Exception:
        s = ReferenceEvaluator(m)
        return s.run(None, {i.name: v for i, v in zip(m.graph.input, feeds)})[0], "onnx-reference"

def relerr(a, b):
    return float(np.max(np.abs(a - b) / np.maximum(np.abs(b), 1e-300)))

F64 = jax.ShapeDtypeStruct((4,), jnp.float64)
x = np.array([-1.0, -3.3, 2.0, -7.7])

# 1. double mode: float attributes are single precision (LeakyRelu alpha)
f = lambda v: jax.nn.leaky_relu(v, negative_slope=0.1)
m = to_onnx(f, [F64], enable_double_precision=True, return_mode="proto")
got, eng = run(m, [x])
with jax.enable_x64(True): exp = np.asarray(f(jnp.asarray(x)))
print("1 leaky_relu f64   rel.err", relerr(got, exp), f"({eng})")

# 2. double mode: lax.atan2 computes Atan in float32
f = lambda a, b: jax.lax.atan2(a, b)
m = to_onnx(f, [F64, F64], enable_double_precision=True, return_mode="proto")
y = np.array([0.3, 1.7, -2.2, 0.9])
got, eng = run(m, [x, y])
with jax.enable_x64(True): exp = np.asarray(f(jnp.asarray(x), jnp.asarray(y)))
print("2 atan2 f64        rel.err", relerr(got, exp), f"({eng}); Cast-to-FLOAT nodes:",
      sum(1 for n in m.graph.node if n.op_type == "Cast" and any(a.name == "to" and a.i == 1 for a in n.attribute)))

# 3. double mode + float32 input spec: python scalar is rounded through float32
f = lambda v: v * 0.1
m = to_onnx(f, [jax.ShapeDtypeStruct((4,), jnp.float32)], enable_double_precision=True, return_mode="proto")
got, eng = run(m, [x])
with jax.enable_x64(True): exp = np.asarray(f(jnp.asarray(x)))
print("3 x*0.1, f32 spec  rel.err", relerr(got, exp), f"({eng}); model input elem_type", m.graph.input[0].type.tensor_type.elem_type)

# 4. single mode: numpy-style promotion int32 x float32 -> float64 leaks DOUBLE
I32 = jax.ShapeDtypeStruct((3,), jnp.int32); F32 = jax.ShapeDtypeStruct((3,), jnp.float32)
for name, fn in {"jnp.concatenate([i32, f32])": lambda a, b: jnp.concatenate([a, b]),
                 "jnp.outer(i32, f32)": lambda a, b: jnp.outer(a, b)}.items():
    m = to_onnx(fn, [I32, F32], enable_double_precision=False, return_mode="proto")
    print("4", name, "single-precision export ->", double_precision_items(m),
          "output elem_type", m.graph.output[0].type.tensor_type.elem_type)

# 5. single mode export while the process-wide x64 flag is on: captured float64 jax array stays DOUBLE
jax.config.update("jax_enable_x64", True)
W = jnp.asarray(np.array([0.1, 0.2, 0.3]))
m = to_onnx(lambda v: v * W, [(3,)], enable_double_precision=False, return_mode="proto")
print("5 global x64 on, closure f64 const, single export ->", double_precision_items(m))
jax.config.update("jax_enable_x64", False)
