"""Reproducers for C19 violations that exist on the UNMODIFIED checkout.

Each case prints OK / WRONG-RESULT / REJECTED(<error>) for a call that plain
JAX accepts.  Run: cd /tmp/wt4/C19 && PYTHONPATH=/tmp/wt4/C19 /venv/bin/python _seed/side_observations.py
"""
import numpy as np, jax, jax.numpy as jnp
import onnxruntime as ort
from flax import nnx
from jax2onnx import to_onnx, onnx_function

so = ort.SessionOptions(); so.log_severity_level = 3

def check(name, fn, *xs):
    try:
        ref = fn(*xs)
    except Exception as e:  # noqa: BLE001
        print(f"{name}: plain JAX itself rejects the call: {type(e).__name__}: {str(e)[:90]}")
        return
    try:
        m = to_onnx(fn, [jax.ShapeDtypeStruct(x.shape, x.dtype) for x in xs])
        sess = ort.InferenceSession(m.SerializeToString(), so)
        out = sess.run(None, {i.name: v for i, v in zip(sess.get_inputs(), xs)})
    except Exception as e:  # noqa: BLE001
        print(f"{name}: REJECTED {type(e).__name__}: {str(e).splitlines()[0][:110]}")
        return
    refs = jax.tree_util.tree_leaves(ref)
    ok = all(np.asarray(r).shape == o.shape and np.allclose(np.asarray(r), o, rtol=1e-4, atol=1e-5, equal_nan=True) for r, o in zip(refs, out))
    print(f"{name}: {'OK' if ok else 'WRONG-RESULT maxdiff=%g' % max(float(np.nanmax(np.abs(np.asarray(r) - o))) for r, o in zip(refs, out) if np.asarray(r).shape == o.shape)}")

rng = np.random.default_rng(0)
B, T, N, H = 2, 6, 2, 4
q, k, v = (rng.standard_normal((B, T, N, H)).astype(np.float32) for _ in range(3))
mask = rng.random((B, N, T, T)) > 0.3; mask[..., 0] = True
kvlen = np.array([4, 6], dtype=np.int32)
x34 = np.arange(12, dtype=np.float32).reshape(3, 4)
x1324 = rng.standard_normal((1, 4, 4, 2)).astype(np.float32)

check("dpa(mask=..., local_window_size=(1,1))  [window silently ignored]",
      lambda q, k, v, m: jax.nn.dot_product_attention(q, k, v, mask=m, local_window_size=(1, 1)), q, k, v, mask)
check("dpa(key_value_seq_lengths=...) only      [query default length = q.shape[2] = heads]",
      lambda q, k, v, l: jax.nn.dot_product_attention(q, k, v, key_value_seq_lengths=l), q, k, v, kvlen)
check("fori_loop(..., unroll=1)", lambda x: jax.lax.fori_loop(0, 3, lambda i, c: c + 1.0, x, unroll=1), x34)
check("fori_loop body closing over a traced value", lambda x: jax.lax.fori_loop(0, 3, lambda i, c: c + x, x), x34)
check("jnp.cumsum(x, 1) positional axis", lambda x: jnp.cumsum(x, 1), x34)
check("jnp.arange(5, None, 2)", lambda x: x[0, 0] + jnp.arange(5, None, 2), x34)
check("jnp.arange(0, 4, 1, jnp.float32) positional dtype", lambda x: x[0] + jnp.arange(0, 4, 1, jnp.float32), x34)
check("jnp.prod(x, 0, None, None, True) positional keepdims", lambda x: jnp.prod(x, 0, None, None, True), x34)
check("jnp.prod(x, promote_integers=False)", lambda x: jnp.prod(x, promote_integers=False), x34)
check("jnp.linspace(0., 1., 5, False) positional endpoint", lambda x: x[0, 0] + jnp.linspace(0.0, 1.0, 5, False), x34)
check("jnp.concatenate([x, x], axis=None)", lambda x: jnp.concatenate([x, x], axis=None), x34)
check("jax.nn.gelu(x, False) positional approximate", lambda x: jax.nn.gelu(x, False), x34)
check("nnx.avg_pool(x, (2, 2)) positional window_shape", lambda x: nnx.avg_pool(x, (2, 2)), x1324)
check("nnx.softmax(x, where=mask)", lambda x: nnx.softmax(x, where=x > 3.0), x34)

@onnx_function
def red(x, mode="sum", scale=2.0):
    return (jnp.sum(x, axis=1) if mode == "sum" else jnp.max(x, axis=1)) * scale

@onnx_function
def addb(x, bias=None):
    return x if bias is None else x + bias

check("@onnx_function f(x, mode='max')  (str kwarg)", lambda x: red(x, mode="max"), x34)
check("@onnx_function f(x, bias=<traced>) (traced kwarg)", lambda x: addb(x, bias=x * 2.0), x34)
