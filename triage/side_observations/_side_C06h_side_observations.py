"""Reproducers for behaviour of the UNMODIFIED checkout that already violates C06.

Run:  cd /tmp/wt8/C06 && PYTHONPATH=/tmp/wt8/C06 /venv/bin/python _seed/side_observations.py
(independent of the seeded change in while_loop.py: only lax.scan is involved)
"""
import jax, jax.numpy as jnp, numpy as np, onnxruntime as ort
from jax2onnx import to_onnx

f32 = np.float32


def run(fn, specs, args):
    model = to_onnx(fn, specs)
    so = ort.SessionOptions(); so.log_severity_level = 3
    sess = ort.InferenceSession(model.SerializeToString(), so, providers=["CPUExecutionProvider"])
    feeds = {i.name: np.asarray(a) for i, a in zip(sess.get_inputs(), args)}
    return sess.run(None, feeds)


def report(title, fn, specs, args):
    exp = [np.asarray(v) for v in jax.tree_util.tree_leaves(fn(*args))]
    try:
        got = run(fn, specs, args)
    except Exception as exc:  # noqa: BLE001
        print(f"{title}: jax shapes {[e.shape for e in exp]}  ->  ONNX FAILED: {type(exc).__name__}: {str(exc)[:160]}")
        return
    print(f"{title}: jax shapes {[e.shape for e in exp]}  onnx shapes {[g.shape for g in got]}")


# (1) scan body contains a scatter (x.at[idx].add) whose updates have leading dim 2;
#     the scanned input is (T, 1, 3).  Stacked ys must be (5, 1, 3).
def scan_scatter(xs, upd):
    def body(c, x):
        return c.at[jnp.array([0, 2])].add(upd), x * 2.0
    return jax.lax.scan(body, jnp.zeros((4, 3), f32), xs)

report("(1) scatter in scan body, xs (5,1,3)", scan_scatter, [(5, 1, 3), (2, 3)],
       (np.ones((5, 1, 3), f32), np.ones((2, 3), f32)))
# (1b) same body, xs (5, 3): the exported model does not run at all
report("(1b) scatter in scan body, xs (5,3)", scan_scatter, [(5, 3), (2, 3)],
       (np.ones((5, 3), f32), np.ones((2, 3), f32)))


# (2) zero-length scan (symbolic length, B = 0 at run time): static per-step dims are lost
def scan_captured(xs, w):
    return jax.lax.scan(lambda c, x: (c + x, (w @ w.T) * c), jnp.float32(0), xs)

report("(2) zero-trip scan, ys per-step (3,3)", scan_captured, [("B",), (3, 2)],
       (np.zeros((0,), f32), np.ones((3, 2), f32)))


def nested(xss):
    def outer(c, xs):
        return jax.lax.scan(lambda d, x: (d + x.sum(), x * d), c, xs)
    return jax.lax.scan(outer, jnp.float32(1), xss)

report("(2b) nested scan, outer length 0", nested, [("A", 4, 3)], (np.ones((0, 4, 3), f32),))
report("(2c) nested scan, inner length 0", nested, [(2, "B", 3)], (np.ones((2, 0, 3), f32),))
