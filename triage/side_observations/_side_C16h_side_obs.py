import numpy as np, jax, jax.numpy as jnp
from jax import lax
import onnxruntime as ort
ort.set_default_logger_severity(3)
from jax2onnx import to_onnx

def try_export(label, f, args, **kw):
    try:
        m = to_onnx(f, list(args), model_name="m", **kw)
    except Exception as e:
        print(label, "-> to_onnx raised", type(e).__name__, str(e)[:100]); return
    try:
        s = ort.InferenceSession(m.SerializeToString())
        out = s.run(None, {i.name: a for i, a in zip(s.get_inputs(), args)})
        print(label, "-> model runs:", [o.ravel()[:4] for o in out])
    except Exception as e:
        print(label, "-> to_onnx returned a model ORT rejects:", str(e)[:260])

x = np.array([[1., -2., 3.]], np.float32)
try_export("celu f16", lambda v: jax.nn.celu(v), [x.astype(np.float16)])
try_export("celu f64 (double precision)", lambda v: jax.nn.celu(v), [x.astype(np.float64)], enable_double_precision=True)
try_export("lax.cumprod reverse", lambda v: lax.cumprod(v, axis=1, reverse=True), [x])
try_export("lax.cumprod forward", lambda v: lax.cumprod(v, axis=1), [x])
try_export("hard_tanh f16", lambda v: jax.nn.hard_tanh(v), [x.astype(np.float16)])
try_export("fori_loop float upper bound (JAX raises TypeError)", lambda v: lax.fori_loop(0, 2.5, lambda i, c: c * 2.0, v), [x])
