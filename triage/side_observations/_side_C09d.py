"""Side observations on the UNMODIFIED checkout (run with PYTHONPATH pointing at an unmodified tree)."""
import warnings, numpy as np, jax, jax.numpy as jnp, onnx, onnxruntime as ort
warnings.filterwarnings("ignore")
import jax2onnx
from jax2onnx import to_onnx
print("jax2onnx from", jax2onnx.__file__)
D = onnx.TensorProto.DOUBLE

def doubles(m):
    found = []
    def g(graph, where):
        for vi in list(graph.input) + list(graph.output) + list(graph.value_info):
            if vi.type.tensor_type.elem_type == D: found.append((where, "value", vi.name))
        for i in graph.initializer:
            if i.data_type == D: found.append((where, "initializer", i.name))
        nodes(graph.node, where)
    def nodes(ns, where):
        for n in ns:
            for a in n.attribute:
                if a.type == onnx.AttributeProto.TENSOR and a.t.data_type == D: found.append((where, "tensor-attr", n.op_type))
                if n.op_type == "Cast" and a.name == "to" and a.i == D: found.append((where, "cast-to-double", n.name))
                if a.type == onnx.AttributeProto.GRAPH: g(a.g, where + "/" + n.op_type)
    g(m.graph, "main")
    for f in m.functions: nodes(f.node, "fn:" + f.name)
    return found

S32 = [jax.ShapeDtypeStruct((5,), jnp.float32)]
print("== single precision: DOUBLE content ==")
for name, fn in {
    "linspace(dtype=float64)": lambda x: x + jnp.linspace(0.0, 1.0, 5, dtype=jnp.float64),
    "arange(dtype=float64)": lambda x: x + jnp.arange(5, dtype=np.float64),
    "arange(dtype=float64) as output": lambda x: jnp.arange(5, dtype=np.float64),
    "full(dtype=float64)": lambda x: x + jnp.full((5,), 1.1, dtype=np.float64),
    "zeros(dtype=float64)": lambda x: x + jnp.zeros(5, np.float64),
    "where(np.float64 scalar)": lambda x: jnp.where(x > 1.0, np.float64(2.2), x),
}.items():
    try:
        m = to_onnx(fn, inputs=S32, enable_double_precision=False)
        d = doubles(m)
        print(f"{name}: {len(d)} double items {d[:3]} outputs={[o.type.tensor_type.elem_type for o in m.graph.output]}")
    except Exception as e:
        print(name, "EXPORT FAIL", type(e).__name__, str(e)[:120])

print("== double precision: accuracy vs JAX x64 ==")
x = np.linspace(0.3, 1.9, 5); y = x[::-1].copy(); n = np.arange(1, 6).astype(np.int64)
def acc(name, fn, xs):
    try:
        m = to_onnx(fn, inputs=[jax.ShapeDtypeStruct(a.shape, a.dtype) for a in xs], enable_double_precision=True)
        s = ort.InferenceSession(m.SerializeToString())
        got = s.run(None, {i.name: a for i, a in zip(s.get_inputs(), xs)})[0]
        with jax.enable_x64(True):
            ref = np.asarray(fn(*[jnp.asarray(a) for a in xs]))
        err = np.max(np.abs(got - ref) / np.maximum(np.abs(ref), 1e-30))
        print(f"{name}: max rel err {err:.3e}")
    except Exception as e:
        print(name, "FAIL", type(e).__name__, str(e)[:160])
acc("arctan2(x, y)", lambda x, y: jnp.arctan2(x, y), [x, y])
acc("hamming(5) * x", lambda x: jnp.hamming(5) * x, [x])
acc("blackman(5)[1:4] * x[1:4]", lambda x: jnp.blackman(5)[1:4] * x[1:4], [x])
acc("x * divide(int n, 3.7)", lambda x, n: x * jnp.divide(n, 3.7), [x, n])
acc("x * fmod(int n, 2.5)", lambda x, n: x * jnp.fmod(n, 2.5), [x, n])
acc("x * floor_divide(int n, 2.5)", lambda x, n: x * jnp.floor_divide(n, 2.5), [x, n])
acc("x * maximum(int n, 2.5)", lambda x, n: x * jnp.maximum(n, 2.5), [x, n])
acc("gelu tanh (ORT kernel)", lambda x: jax.nn.gelu(x), [x])
