import numpy as np, onnx_ir as ir, onnx
from onnx_ir import serde
import onnxruntime as ort
from jax2onnx.converter.ir_optimizations import optimize_graph

def cast_attr(dt): return ir.Attr("to", ir.AttributeType.INT, int(dt.value))
def const(name, arr): return ir.val(name, ir.DataType.INT64, arr.shape, const_value=ir.tensor(arr))

def build():
    start = const("start", np.asarray(0, np.int64))
    limit = const("limit", np.asarray(4, np.int64))
    delta = const("delta", np.asarray(1, np.int64))
    r = ir.val("range", ir.DataType.INT64, (None,))
    a = ir.val("narrowed", ir.DataType.INT8, (None,))
    b = ir.val("restored", ir.DataType.INT64, (None,))
    nodes = [
        ir.Node(op_type="Range", domain="", inputs=[start, limit, delta], outputs=[r], name="Range_values"),
        ir.Node(op_type="Cast", domain="", inputs=[r], outputs=[a], name="c1", attributes=[cast_attr(ir.DataType.INT8)]),
        ir.Node(op_type="Cast", domain="", inputs=[a], outputs=[b], name="c2", attributes=[cast_attr(ir.DataType.INT64)]),
    ]
    # limit is BOTH a graph input and an initializer: an overridable default (IR >= 4)
    g = ir.Graph(name="g", inputs=[limit], outputs=[b], nodes=nodes, initializers=[start, limit, delta])
    m = ir.Model(graph=g, ir_version=10); m.opset_imports[""] = 21
    return m

def run(m, feeds):
    p = serde.serialize_model(m)
    onnx.checker.check_model(p, full_check=True)
    s = ort.InferenceSession(p.SerializeToString(), providers=["CPUExecutionProvider"])
    return s.run(None, feeds)[0]

ref = run(build(), {"limit": np.asarray(300, np.int64)})
opt = optimize_graph(build())
print([n.op_type for n in opt.graph])
got = run(opt, {"limit": np.asarray(300, np.int64)})
print(ref[125:132], got[125:132], np.array_equal(ref, got))
