"""Side observation 1 (unmodified checkout): the FIRST to_onnx call of a process
changes library namespaces for good (plugins are imported lazily and some of them
install things at import time)."""
import inspect, sys
import jax, jax.numpy as jnp
from flax import nnx
import flax.linen, equinox  # noqa
import jax2onnx

PREFIXES = ("jax", "flax", "equinox", "dm_pix")
def snapshot():
    snap = {}
    for name, mod in list(sys.modules.items()):
        if mod is None or name.split(".")[0] not in PREFIXES:
            continue
        for k, v in list(vars(mod).items()):
            snap[(name, k)] = v
    return snap
a = snapshot()
jax2onnx.to_onnx(lambda x: x + 1, [(3,)])
b = snapshot()
bad = 0
for key in sorted(set(a) & set(b), key=str):
    if a[key] is not b[key] and not inspect.ismodule(b[key]) and not key[1].startswith("__"):
        print("changed", ".".join(key), a[key], "->", b[key]); bad += 1
mods_before = {k[0] for k in a}
for key in sorted(set(b) - set(a), key=str):
    if key[0] in mods_before and not inspect.ismodule(b[key]):
        print("added  ", ".".join(key), b[key]); bad += 1
sys.exit(1 if bad else 0)
