"""Reproducers for call forms that the UNMODIFIED checkout already mishandles
(independent of the seeded change, none of them touches jnp.pad)."""
import numpy as np, jax, jax.numpy as jnp
import onnxruntime as ort
import equinox as eqx
from flax import nnx
from jax2onnx import to_onnx, onnx_function

# keep handles to the pristine library functions before any plugin import side effects
x = np.arange(24, dtype=np.float32).reshape(2, 3, 4) - 10.0


def export_and_run(fn, *inputs):
    m = to_onnx(fn, [jax.ShapeDtypeStruct(i.shape, i.dtype) for i in inputs])
    s = ort.InferenceSession(m.SerializeToString())
    return s.run(None, {a.name: i for a, i in zip(s.get_inputs(), inputs)})


def obs(label, thunk):
    try:
        print(f"{label}: {thunk()}")
    except Exception as e:
        print(f"{label}: raised {type(e).__name__}: {str(e)[:140]}")


# 1. jnp.cumsum is replaced permanently at plugin import time by a wrapper that
#    rejects the positional axis -- even OUTSIDE conversion.
obs("S1 jnp.cumsum(a, 1) outside conversion (after plugins were imported)",
    lambda: jnp.cumsum(jnp.asarray(x), 1).shape)

# 2. ufunc objects lose their methods while traced
obs("S2 jnp.add.reduce(x, axis=0) while traced",
    lambda: export_and_run(lambda a: jnp.add.reduce(a, axis=0), x)[0].shape)
obs("S2b jnp.add(x, x, where=None) while traced",
    lambda: export_and_run(lambda a: jnp.add(a, a, where=None), x)[0].shape)

# 3. positional hyper-parameters of pass-through wrappers become operands
obs("S3 jax.nn.leaky_relu(x, 0.2) while traced",
    lambda: export_and_run(lambda a: jax.nn.leaky_relu(a, 0.2), x)[0].shape)
obs("S3b jax.nn.gelu(x, False) while traced",
    lambda: export_and_run(lambda a: jax.nn.gelu(a, False), x)[0].shape)

# 4. jnp.clip casts the bounds to the operand dtype (JAX promotes instead)
xi = np.arange(6, dtype=np.int32)
def s4():
    ref = np.asarray(jnp.clip(jnp.asarray(xi), 0.5, 2.5))
    got = export_and_run(lambda a: jnp.clip(a, 0.5, 2.5), xi)[0]
    return f"jax={ref.dtype}{ref.tolist()} onnx={got.dtype}{got.tolist()}"
obs("S4 jnp.clip(int32, 0.5, 2.5)", s4)

# 5. nnx.dot_product_attention: 4th positional parameter is `bias` upstream, the
#    substitute binds it as `mask`; is_causal is accepted and ignored.
q = np.random.default_rng(0).normal(size=(1, 4, 2, 8)).astype(np.float32)
bias = np.random.default_rng(1).normal(size=(1, 2, 4, 4)).astype(np.float32)
def s5():
    ref = np.asarray(nnx.dot_product_attention(jnp.asarray(q), jnp.asarray(q), jnp.asarray(q), jnp.asarray(bias)))
    got = export_and_run(lambda a, b: nnx.dot_product_attention(a, a, a, b), q, bias)[0]
    return f"max|onnx-jax|={np.abs(ref-got).max():.4f}"
obs("S5 nnx.dot_product_attention(q,k,v,bias) positional bias", s5)
def s5b():
    ref = np.asarray(nnx.dot_product_attention(jnp.asarray(q), jnp.asarray(q), jnp.asarray(q), is_causal=True))
    got = export_and_run(lambda a: nnx.dot_product_attention(a, a, a, is_causal=True), q)[0]
    return f"max|onnx-jax|={np.abs(ref-got).max():.4f}"
obs("S5b nnx.dot_product_attention(..., is_causal=True)", s5b)

# 6. jnp.arange call forms
obs("S6 jnp.arange(0, 5, 1, jnp.float32) while traced",
    lambda: export_and_run(lambda a: a[0, 0, 0] + jnp.arange(0, 5, 1, jnp.float32), x)[0].shape)
obs("S6b jnp.arange(start=5) while traced",
    lambda: export_and_run(lambda a: a[0, 0, 0] + jnp.arange(start=5), x)[0].shape)

# 7. jnp.einsum implicit-output form / jnp.reshape(shape=...) keyword
obs("S7 jnp.einsum('ij,jk', a, b) while traced",
    lambda: export_and_run(lambda a: jnp.einsum("ij,jk", a[0], a[0].T), x)[0].shape)
obs("S7b jnp.reshape(a, shape=(6, 4)) while traced",
    lambda: export_and_run(lambda a: jnp.reshape(a, shape=(6, 4)), x)[0].shape)

# 8. eqx.nn.LayerNorm(x, None): upstream returns (out, None) (state passed), substitute returns out
ln = eqx.nn.LayerNorm(4)
def s8():
    ref = ln(jnp.ones(4), None)
    holder = {}
    def f(a):
        r = ln(a, None)
        holder["type"] = type(r).__name__
        return r[0] if isinstance(r, tuple) else r
    export_and_run(f, np.ones(4, np.float32))
    return f"upstream returns {type(ref).__name__}, traced substitute returns {holder['type']}"
obs("S8 eqx.nn.LayerNorm()(x, None)", s8)

# 9. @onnx_function with a static string keyword
@onnx_function
def scaled(a, mode="a"):
    return a + 1 if mode == "b" else a
obs("S9 @onnx_function f(x, mode='b')",
    lambda: export_and_run(lambda a: scaled(a, mode="b"), x)[0].shape)

# 1 (again, now that a conversion has imported the plugins): still OUTSIDE conversion
obs("S1b jnp.cumsum(a, 1) outside conversion, after a conversion ran",
    lambda: jnp.cumsum(jnp.asarray(x), 1).shape)
obs("S1c jnp.cumsum is the library function", lambda: f"{jnp.cumsum.__module__}.{jnp.cumsum.__name__}")
