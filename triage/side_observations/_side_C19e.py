import numpy as np, jax, jax.numpy as jnp
from flax import nnx
from jax2onnx import to_onnx

def attempt(label, fn, *inputs):
    try:
        ref = fn(*inputs)
    except Exception as e:
        print(f"{label}: plain JAX call itself fails: {type(e).__name__}: {str(e)[:100]}"); return
    try:
        m = to_onnx(fn, list(inputs), model_name="side")
        print(f"{label}: export OK; ops={[n.op_type for n in m.graph.node][:8]}")
        return m
    except Exception as e:
        print(f"{label}: export raised {type(e).__name__}: {str(e)[:140]}")

x = np.arange(6, dtype=np.float32).reshape(2, 3)
attempt("fori_loop(unroll=1)", lambda a: jax.lax.fori_loop(0, 3, lambda i, c: c + 1.0, a, unroll=1), x)
attempt("prod(promote_integers=False)", lambda a: jnp.prod(a, promote_integers=False), x)
attempt("prod(where=None)", lambda a: jnp.prod(a, where=None), x)
attempt("prod positional out/keepdims", lambda a: jnp.prod(a, 0, None, None, True), x)
ein = nnx.Einsum("ab,bc->ac", (3, 4), rngs=nnx.Rngs(0))
attempt("nnx.Einsum(einsum_str=...)", lambda a: ein(a, einsum_str="ab,bc->ac"), x)
drop = nnx.Dropout(0.5, deterministic=True)
attempt("nnx.Dropout(rngs=...)", lambda a: drop(a, deterministic=True, rngs=nnx.Rngs(0)), x)
bn = nnx.BatchNorm(3, use_running_average=True, rngs=nnx.Rngs(0))
attempt("nnx.BatchNorm(use_running_average=False) call-time override", lambda a: bn(a, use_running_average=False), x)
