import sys; import os; sys.path.insert(0, os.path.dirname(os.path.abspath(__file__)))
from _probe import *
from onnx.reference import ReferenceEvaluator
import onnxruntime as ort, ml_dtypes
from jax2onnx import onnx_function
from flax import nnx
S = jax.ShapeDtypeStruct
def ref_run(m, *xs):
    r = ReferenceEvaluator(m); return r.run(None, dict(zip(r.input_names, xs)))[0]
def ort_run(m, *xs):
    s = ort.InferenceSession(m.SerializeToString(), providers=["CPUExecutionProvider"])
    return s.run(None, {i.name: x for i, x in zip(s.get_inputs(), xs)})[0]
def sect(t): print("\n==", t)

sect("1 cumprod / bitcast at opset 21, 23")
for o in (21, 23, 25):
    for name, fn, spec in [("cumprod", lambda x: jnp.cumprod(x, axis=0), S((4,), jnp.float32)), ("bitcast", lambda x: jax.lax.bitcast_convert_type(x, jnp.int32), S((4,), jnp.float32))]:
        try:
            m, p = run(fn, [spec], o); print(o, name, p)
        except Exception as e: print(o, name, "EXC", type(e).__name__, str(e)[:120])

sect("2 iota float16 size 2051 at opset 27 vs 23")
def f_iota16(x): return x + jax.lax.iota(jnp.float16, 2051)
x = np.zeros((2051,), np.float16)
for o in (23, 27):
    m, p = run(f_iota16, [S((2051,), jnp.float16)], o)
    try:
        got = ref_run(m, x); print(o, p, got.shape, np.array_equal(got, np.asarray(f_iota16(x))))
    except Exception as e: print(o, p, "EXC", type(e).__name__, str(e)[:150])
    rng = [n for n in iter_nodes(m.graph) if n.op_type == "Range"]
    inits = {i.name: onnx.numpy_helper.to_array(i) for i in m.graph.initializer}
    for n in rng: print("   Range inputs", [(i, inits.get(i)) for i in n.input])

sect("3 onnx_function named Abs feeding reduce_window_sum: opset 21 vs 23")
@onnx_function
def Abs(x): return x - 1.0
def f_rw(x): return jax.lax.reduce_window(Abs(x), 0.0, jax.lax.add, (2,), (1,), "VALID")
x = np.array([0.0, 0.5, 3.0, -2.0, 1.0], np.float32)
for o in (21, 22, 23):
    try:
        m, p = run(f_rw, [S((5,), jnp.float32)], o)
        ops = sorted({n.op_type for n in iter_nodes(m.graph)})
        print(o, p, ops, "onnx:", ort_run(m, x), "jax:", np.asarray(f_rw(x)))
    except Exception as e: print(o, "EXC", type(e).__name__, str(e)[:200])

sect("4 bf16 sin / cast float4 at opset 21")
for name, fn, spec in [("sin_bf16", lambda x: jnp.sin(x), S((4,), jnp.bfloat16)), ("cast_f4", lambda x: x.astype(jnp.float4_e2m1fn), S((4,), jnp.float32)), ("cast_f8e8m0", lambda x: x.astype(jnp.float8_e8m0fnu), S((4,), jnp.float32))]:
    for o in (21, 23):
        try:
            m, p = run(fn, [spec], o)
            # type constraint audit
            bad = []
            inf = onnx.shape_inference.infer_shapes(m)
            types = {v.name: v.type.tensor_type.elem_type for v in list(inf.graph.input)+list(inf.graph.value_info)+list(inf.graph.output)}
            for n in iter_nodes(m.graph):
                sch = defs.get_schema(n.op_type, o, "")
                for idx, inp in enumerate(n.input):
                    if inp in types and idx < len(sch.inputs):
                        tstr = sch.inputs[idx].type_str
                        allowed = next((tc.allowed_type_strs for tc in sch.type_constraints if tc.type_param_str == tstr), None)
                        tname = "tensor(" + onnx.helper.tensor_dtype_to_string(types[inp]).split(".")[-1].lower() + ")"
                        if allowed and tname not in allowed: bad.append((n.op_type, sch.since_version, tname))
                if n.op_type == "Cast":
                    to = [a.i for a in n.attribute if a.name == "to"][0]
                    tname = "tensor(" + onnx.helper.tensor_dtype_to_string(to).split(".")[-1].lower() + ")"
                    allowed = next(tc.allowed_type_strs for tc in sch.type_constraints if tc.type_param_str == sch.outputs[0].type_str)
                    if tname not in allowed: bad.append(("Cast.to", sch.since_version, tname))
            print(o, name, p, "type violations:", bad)
        except Exception as e: print(o, name, "EXC", type(e).__name__, str(e)[:160])
