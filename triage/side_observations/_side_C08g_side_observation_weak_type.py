import numpy as np, jax, jax.numpy as jnp, onnx
from jax2onnx import to_onnx, onnx_function

@onnx_function
def scale(x, s):
    return x * s

def model(x):
    a = scale(x, 2.0)                 # weak float -> stays float16
    b = scale(x, jnp.float32(2.0))    # strong float32 -> float32
    return a, b

m = to_onnx(model, [jax.ShapeDtypeStruct((3,), jnp.float16)], model_name="weak")
print([ (f.name, f.domain) for f in m.functions])
for n in m.graph.node:
    print(n.op_type, n.domain, list(n.input), list(n.output))
for o in m.graph.output:
    print(o.name, o.type.tensor_type.elem_type)
import onnxruntime as ort
try:
    s = ort.InferenceSession(m.SerializeToString())
    r = s.run(None, {s.get_inputs()[0].name: np.ones(3, np.float16)})
    print([ (x.dtype, x) for x in r])
except Exception as e:
    print("ORT ERR", e)
print(jax.eval_shape(model, jax.ShapeDtypeStruct((3,), jnp.float16)))
