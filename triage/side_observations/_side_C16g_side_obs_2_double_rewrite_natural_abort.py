"""Side observation 2 (UNMODIFIED checkout): the optimizer aborts BY ITSELF and the
default policy returns a model that onnx.checker rejects.

remove_redundant_transpose_reduce (pass #2) can rewrite the same ReduceMean
twice (T0 -> T1 -> ReduceMean -> T2 -> T3 with T1/T2 and T0/T3 inverse pairs;
T0/T3 come from inputs_as_nchw / outputs_as_nchw, T1/T2 from the user code).
Both rewrites materialise their axes through a Constant whose output is named
"<reducer.name>_axes_optimized", i.e. the same name twice.  Pass #8
(lift_constants_to_initializers) then raises
  ValueError: Initializer 'ReduceMean_0_axes_optimized' is already registered ...
so the pipeline stops at pass 8 without any injected fault.  Under the default
policy to_onnx logs a warning and returns a graph that holds an initializer AND a
Constant output with that name: onnx.checker reports an SSA violation.
(onnxruntime only warns "Duplicate initializer ... will use the latest" and by
luck picks the right one, so the numbers are still correct.)

With JAX2ONNX_STRICT_OPTIMIZER_FAILURES=1 the same export raises the ValueError.

Run:  PYTHONPATH=<checkout> python side_obs_2_double_rewrite_natural_abort.py
Exit 1 == returned model is not a valid ONNX model.
"""

import sys

import numpy as np
import jax.numpy as jnp
import onnx
import onnxruntime as ort

from jax2onnx import to_onnx


def f(x):  # x is NHWC inside the callable
    y = jnp.transpose(x, (0, 3, 1, 2))
    y = jnp.mean(y, axis=(2,), keepdims=True)
    return jnp.transpose(y, (0, 2, 3, 1))


m = to_onnx(f, [(2, 4, 5, 3)], inputs_as_nchw=[0], outputs_as_nchw=[0])
print([(n.op_type, list(n.input), list(n.output)) for n in m.graph.node])
print([(i.name, onnx.numpy_helper.to_array(i)) for i in m.graph.initializer])

x = np.random.RandomState(0).randn(2, 3, 4, 5).astype(np.float32)
ref = np.transpose(np.asarray(f(np.transpose(x, (0, 2, 3, 1)))), (0, 3, 1, 2))
s = ort.InferenceSession(m.SerializeToString())
y = s.run(None, {s.get_inputs()[0].name: x})[0]
print("onnxruntime equal to jax:", y.shape == ref.shape and np.allclose(y, ref, atol=1e-5))

try:
    onnx.checker.check_model(m, full_check=True)
    print("checker ok")
except Exception as e:
    print("VIOLATION: onnx.checker rejects the returned model:", str(e).splitlines()[0])
    sys.exit(1)
sys.exit(0)
