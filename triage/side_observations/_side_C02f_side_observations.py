#!/usr/bin/env python
"""Reproducers for property-C02 violations that exist on the UNMODIFIED checkout.

Independent of the seeded change (both fail with and without patch.diff).
Run:  PYTHONPATH=/tmp/wt6/C02 /venv/bin/python _seed/side_observations.py
Prints one line per observation; exit status 1 if any of them reproduces.
"""
import sys
import numpy as np, onnx_ir as ir, onnxruntime as ort
from onnx_ir import serde
from jax2onnx.converter.ir_optimizations import optimize_graph

ort.set_default_logger_severity(3)


def const(name, arr):
    arr = np.asarray(arr)
    t = ir.tensor(arr)
    return ir.val(name, t.dtype, arr.shape, const_value=t)


def run(model, feeds):
    proto = serde.serialize_model(model)
    s = ort.InferenceSession(proto.SerializeToString(), providers=["CPUExecutionProvider"])
    return s.run(None, feeds)[0]


def before_after(build, feeds):
    m0, m1 = build(), build()
    for m in (m0, m1):
        m.opset_imports[""] = 21
    a = run(m0, feeds)
    optimize_graph(m1)
    b = run(m1, feeds)
    return a, b, [n.op_type for n in m1.graph]


# S1: reshape-pair fold through Max whose side operand is a size-1 constant of
#     HIGHER RANK than the reshape source.  _is_scalar_const_value() only checks
#     size == 1, so Max(a:(2,3), c:(1,1,1)) counts as "first-input passthrough";
#     after the fold Max(x:(6,), c:(1,1,1)) broadcasts to (1,1,6).
def s1():
    x = ir.val("x", ir.DataType.FLOAT, (6,))
    s1_, s2_ = const("s1", np.array([2, 3], np.int64)), const("s2", np.array([6], np.int64))
    c = const("c", np.zeros((1, 1, 1), np.float32))
    a = ir.val("a", ir.DataType.FLOAT, (2, 3))
    b = ir.val("b", ir.DataType.FLOAT, (1, 2, 3))
    y = ir.val("y", ir.DataType.FLOAT, (6,))
    nodes = [
        ir.Node("", "Reshape", [x, s1_], outputs=[a], name="r1"),
        ir.Node("", "Max", [a, c], outputs=[b], name="mx"),
        ir.Node("", "Reshape", [b, s2_], outputs=[y], name="r2"),
    ]
    g = ir.Graph(name="g", inputs=[x], outputs=[y], nodes=nodes, initializers=[s1_, s2_, c])
    return ir.Model(graph=g, ir_version=10)


# S2: transpose-pair "Case 1" (single-consumer chain) fold does not refresh the
#     shape annotation of the nodes it keeps.  Pass 0 normally handles such
#     chains (and refreshes), but it rejects CastLike with a non-scalar `like`
#     operand, so T -> CastLike(., like) -> T^-1 falls through to Case 1.  The
#     kept CastLike output still carries the transposed shape (3,2) although it
#     is (2,3) now, and remove_identity_reshapes_ir then deletes the following
#     Reshape(., [3,2]) as an "identity".
def s2():
    x = ir.val("x", ir.DataType.FLOAT, (2, 3))
    like = const("like", np.ones((5,), np.float64))
    s = const("s", np.array([3, 2], np.int64))
    a = ir.val("a", ir.DataType.FLOAT, (3, 2))
    b = ir.val("b", ir.DataType.DOUBLE, (3, 2))
    c = ir.val("c", ir.DataType.DOUBLE, (2, 3))
    y = ir.val("y", ir.DataType.DOUBLE, (3, 2))
    perm = lambda: [ir.Attr("perm", ir.AttributeType.INTS, (1, 0))]
    nodes = [
        ir.Node("", "Transpose", [x], outputs=[a], name="t1", attributes=perm()),
        ir.Node("", "CastLike", [a, like], outputs=[b], name="cl"),
        ir.Node("", "Transpose", [b], outputs=[c], name="t2", attributes=perm()),
        ir.Node("", "Reshape", [c, s], outputs=[y], name="r"),
    ]
    g = ir.Graph(name="g", inputs=[x], outputs=[y], nodes=nodes, initializers=[like, s])
    return ir.Model(graph=g, ir_version=10)


bad = 0
for label, build, feeds in (
    ("S1 reshape-pair + Max(rank-3 size-1 const)", s1, {"x": np.arange(-3, 3, dtype=np.float32)}),
    ("S2 transpose Case-1 fold leaves stale shape -> Reshape dropped", s2,
     {"x": np.arange(6, dtype=np.float32).reshape(2, 3)}),
):
    a, b, ops = before_after(build, feeds)
    ok = a.shape == b.shape and a.dtype == b.dtype and np.array_equal(a, b)
    print(f"{label}: before {a.shape} after {b.shape} ops_after={ops} -> {'ok' if ok else 'VIOLATION'}")
    bad += not ok
sys.exit(1 if bad else 0)
