"""Reproducers for C07 violations that exist on the UNMODIFIED checkout
(independent of the seeded change in patch.diff).  Prints one line per case."""
from dataclasses import dataclass, field

import jax
import jax.numpy as jnp
import numpy as np
import onnxruntime as ort

from jax2onnx import onnx_function
from jax2onnx.user_interface import to_onnx

ort.set_default_logger_severity(3)


def run(m, *xs):
    sess = ort.InferenceSession(m.SerializeToString())
    return sess.run(None, {i.name: x for i, x in zip(sess.get_inputs(), xs)})


def report(tag, got, exp):
    ok = got.dtype == exp.dtype and got.shape == exp.shape and np.allclose(got, exp, atol=1e-3)
    print(f"{tag}: {'ok' if ok else 'VIOLATION'}  onnx={got.dtype}{np.round(got.ravel()[:3], 4)}"
          f"  jax={exp.dtype}{np.round(exp.ravel()[:3], 4)}")


x = np.arange(3, dtype=np.float32) + 1
X = np.arange(6, dtype=np.float32).reshape(2, 3) + 1


# A. unique=True fingerprints un-flattenable instances by repr(); a field hidden
#    from repr (dataclass field(repr=False)) is ignored -> two instances with
#    different weights share one body.
@onnx_function(unique=True)
@dataclass
class ScaleU:
    tag: str
    k: float = field(repr=False)

    def __call__(self, v):
        return v * self.k


a, b = ScaleU("s", 2.0), ScaleU("s", 3.0)
fA = lambda v: b(a(v))  # noqa: E731
mA = to_onnx(fA, inputs=[(3,)], model_name="A")
print("A defs:", [(f.domain, f.name) for f in mA.functions])
report("A unique+repr=False", run(mA, x)[0], np.asarray(fA(x)))


# B. FunctionPlugin._batching_rule ignores instance_key and calls self._orig_fn
#    (= the instance that was called LAST).  When batching replays a stored jaxpr
#    (vmap over scan/cond bodies) every call site uses the last instance.
@onnx_function
class Scale:
    def __init__(self, k):
        self.k = k

    def __call__(self, v):
        return v * self.k


s2, s3 = Scale(2.0), Scale(3.0)


def fB(v):
    def per_row(r):
        def body(c, _):
            return s3(s2(c)), None

        return jax.lax.scan(body, r, None, length=1)[0]

    return jax.vmap(per_row)(v)


expB = np.asarray(fB(X))
report("B vmap(scan(fn instances))", run(to_onnx(fB, inputs=[(2, 3)], model_name="B"), X)[0], expB)


# C. positional Python scalars lose their weak type at the function boundary
#    (abstract eval and body tracing rebuild ShapeDtypeStructs) -> result dtype
#    differs from the undecorated export and from JAX.
def mul_plain(v, k):
    return v * k


@onnx_function
def mul_fn(v, k):
    return v * k


xh = ((np.arange(3) + 1) / 3).astype(np.float16)
spec = [jax.ShapeDtypeStruct((3,), jnp.float16)]
expC = np.asarray(mul_plain(xh, 2.1))
report("C undecorated f16*2.1", run(to_onnx(lambda v: mul_plain(v, 2.1), inputs=spec, model_name="C0"), xh)[0], expC)
report("C decorated   f16*2.1", run(to_onnx(lambda v: mul_fn(v, 2.1), inputs=spec, model_name="C1"), xh)[0], expC)


# D. opset >= 24: rewrite_mul_sigmoid_as_swish_ir matches op_type only, so a call
#    node of a user function named "Sigmoid" (or "Mul") in a custom domain is
#    folded into a standard Swish.
@onnx_function
def Sigmoid(v):
    return v + 0.5


@onnx_function
def Mul(u, v):
    return u - v


fD1 = lambda v: v * Sigmoid(v)  # noqa: E731
fD2 = lambda v: Mul(v, jax.nn.sigmoid(v))  # noqa: E731
for tag, fn in (("D1 x*Sigmoid(x)", fD1), ("D2 Mul(x, sigmoid(x))", fD2)):
    for opset in (23, 24):
        m = to_onnx(fn, inputs=[(2, 3)], model_name="D", opset=opset)
        report(f"{tag} opset={opset}", run(m, X)[0], np.asarray(fn(X)))
