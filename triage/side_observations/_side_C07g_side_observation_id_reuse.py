import numpy as np, jax, jax.numpy as jnp
import onnxruntime as ort
import jax2onnx
from jax2onnx import to_onnx, onnx_function

@onnx_function
class Scale:
    def __init__(self, w): self.w = w
    def __call__(self, x): return x * self.w

KEEP = Scale(3.0)
HOLD = []
def model(x):
    x = Scale(2.0)(x)      # temporary instance
    x = KEEP(x)            # long-lived instance
    s3 = Scale(5.0)        # long-lived, may take the address of the temporary
    HOLD.append(s3)
    x = s3(x)
    return x

x = np.arange(4, dtype=np.float32) + 1
m = to_onnx(model, [jax.ShapeDtypeStruct((4,), jnp.float32)])
print([ (f.domain, f.name) for f in m.functions])
sess = ort.InferenceSession(m.SerializeToString())
out = sess.run(None, {sess.get_inputs()[0].name: x})[0]
print(out, model(x))
