"""Side observation on the UNMODIFIED checkout: floordiv with a negative numerator."""
import sys
import numpy as np, onnxruntime as ort
from jax2onnx import to_onnx
ort.set_default_logger_severity(4)
fn = lambda x: x * ((x.shape[0] - 5) // 2)
m = to_onnx(fn, [("B",)], model_name="fdiv_neg")
s = ort.InferenceSession(m.SerializeToString(), providers=["CPUExecutionProvider"])
bad = 0
for b in (1, 2, 3, 4, 5, 6, 7):
    x = np.ones((b,), np.float32)
    exp = np.asarray(fn(x)); got = s.run(None, {s.get_inputs()[0].name: x})[0]
    ok = np.array_equal(exp, got); bad += not ok
    print(b, "jax", exp[0], "onnx", got[0], "OK" if ok else "MISMATCH")
sys.exit(1 if bad else 0)
