"""Side observation (UNMODIFIED checkout): vmap over dm_pix.depth_to_space /
space_to_depth cannot be exported: the batching rule calls jax.vmap over a
function that binds the very same primitive, so the rule re-enters itself
(RecursionError).  Loud failure, not a wrong model."""
import numpy as np, jax
import dm_pix as pix
from jax2onnx.user_interface import to_onnx

rng = np.random.default_rng(0)
# NB: look the function up on the module at call time, otherwise the plugin's
# monkey patch is bypassed and the original implementation is traced instead.
for name, shape in (("depth_to_space", (3, 2, 2, 8)), ("space_to_depth", (3, 4, 4, 2))):
    x = rng.normal(size=shape).astype(np.float32)
    f = lambda x, name=name: jax.vmap(lambda y: getattr(pix, name)(y, 2))(x)
    print(name, "JAX result shape", np.asarray(f(x)).shape)
    try:
        to_onnx(f, [jax.ShapeDtypeStruct(x.shape, x.dtype)], model_name="m")
        print(name, "export ok")
    except BaseException as e:
        print(name, "export failed:", type(e).__name__, str(e)[:100])
