import numpy as np, onnx_ir as ir, onnxruntime as ort, copy
from onnx_ir import serde
from jax2onnx.converter.ir_optimizations import optimize_graph

def run(model, feeds):
    proto = serde.serialize_model(model)
    s = ort.InferenceSession(proto.SerializeToString(), providers=["CPUExecutionProvider"])
    return s.run(None, feeds)

def perm(p): return ir.Attr("perm", ir.AttributeType.INTS, p)

def build_castlike():
    x = ir.val("x", ir.DataType.FLOAT, (2,3))
    a = ir.val("a", ir.DataType.INT32, (3,2))
    t1 = ir.val("t1", ir.DataType.FLOAT, (3,2))
    c = ir.val("c", ir.DataType.FLOAT, (3,2))
    y = ir.val("y", ir.DataType.FLOAT, (2,3))
    nodes = [ir.Node("", "Transpose", [x], outputs=[t1], attributes=[perm([1,0])], name="T1"),
             ir.Node("", "CastLike", [a, t1], outputs=[c], name="CL"),
             ir.Node("", "Transpose", [c], outputs=[y], attributes=[perm([1,0])], name="T2")]
    g = ir.Graph(name="g", inputs=[x,a], outputs=[y], nodes=nodes)
    m = ir.Model(graph=g, ir_version=10); m.opset_imports[""]=21
    return m

feeds = {"x": np.zeros((2,3),np.float32), "a": np.arange(6,dtype=np.int32).reshape(3,2)}
ref = run(build_castlike(), feeds)[0]
m = optimize_graph(build_castlike())
print([n.op_type for n in m.graph], [ (o.name,o.shape) for o in m.graph.outputs])
try:
    got = run(m, feeds)[0]
    print("castlike: ref", ref.shape, ref.tolist(), "got", got.shape, got.tolist())
except Exception as e:
    print("castlike run error", e)

def build_size1():
    x = ir.val("x", ir.DataType.FLOAT, (3,))
    c = ir.val("c", ir.DataType.FLOAT, (1,1), const_value=ir.tensor(np.ones((1,1),np.float32)))
    y = ir.val("y", ir.DataType.FLOAT, (1,3))
    nodes=[ir.Node("", "Add", [x,c], outputs=[y], name="A")]
    g = ir.Graph(name="g", inputs=[x], outputs=[y], nodes=nodes, initializers=[c])
    m = ir.Model(graph=g, ir_version=10); m.opset_imports[""]=21
    return m
m = optimize_graph(build_size1())
print("size1: declared out shape after opt:", m.graph.outputs[0].shape, "actual", run(m, {"x": np.zeros(3,np.float32)})[0].shape)
def c(name, v): return ir.val(name, ir.DataType.INT64, (), const_value=ir.tensor(np.asarray(v, np.int64)))
def build_override():
    s, l, d = c("start", 0), c("limit", 4), c("delta", 1)
    rng = ir.val("rng", ir.DataType.INT64, (None,))
    nar = ir.val("nar", ir.DataType.INT8, (None,))
    res = ir.val("res", ir.DataType.INT64, (None,))
    nodes = [ir.Node("", "Range", [s,l,d], outputs=[rng]),
      ir.Node("", "Cast", [rng], outputs=[nar], attributes=[ir.Attr("to", ir.AttributeType.INT, int(ir.DataType.INT8))]),
      ir.Node("", "Cast", [nar], outputs=[res], attributes=[ir.Attr("to", ir.AttributeType.INT, int(ir.DataType.INT64))])]
    g = ir.Graph(name="g", inputs=[l], outputs=[res], nodes=nodes, initializers=[s,l,d])
    m = ir.Model(graph=g, ir_version=10); m.opset_imports[""]=21
    return m
feeds = {"limit": np.asarray(131, np.int64)}
ref = run(build_override(), feeds)[0]
m = optimize_graph(build_override())
print([n.op_type for n in m.graph], [i.name for i in m.graph.inputs])
got = run(m, feeds)[0]
print("ref tail", ref[-4:], "got tail", got[-4:], "equal", np.array_equal(ref, got))
