"""Reproducers for C08 violations that exist on the UNMODIFIED checkout
(independent of the seeded change).  Run with cwd=/tmp/wt8/C08 PYTHONPATH=/tmp/wt8/C08."""
import numpy as np, jax, jax.numpy as jnp, onnx, onnxruntime as ort
from flax import nnx
import jax2onnx

so = ort.SessionOptions(); so.log_severity_level = 3
dims = lambda vi: [d.dim_value or d.dim_param for d in vi.type.tensor_type.shape.dim]

# (1) opset<=9 resize: Upsample gets float32 scales = out/in, the runtime size is
#     floor(in * scale) -> 12, the graph output declares 13.
f = lambda x: jax.image.resize(x, (13,), method="nearest")
m = jax2onnx.to_onnx(f, [(11,)], opset=9)
out = ort.InferenceSession(m.SerializeToString(), so).run(
    None, {m.graph.input[0].name: np.arange(11, dtype=np.float32)})[0]
print("(1) resize opset 9: declared", dims(m.graph.output[0]), "runtime", list(out.shape))

# (2) nnx.max_pool with a symbolic spatial axis: _compute_output_dim returns the
#     input extent for non-integer dims, so the output re-uses dim_param 'H'
#     for an axis whose runtime size is H/2.
g = lambda x: nnx.max_pool(x, window_shape=(2, 2), strides=(2, 2), padding="VALID")
m = jax2onnx.to_onnx(g, [("B", "H", 10, 3)])
x = np.random.rand(2, 8, 10, 3).astype(np.float32)
out = ort.InferenceSession(m.SerializeToString(), so).run(None, {m.graph.input[0].name: x})[0]
print("(2) max_pool symbolic H: input declared", dims(m.graph.input[0]),
      "output declared", dims(m.graph.output[0]), "runtime in", list(x.shape), "out", list(out.shape))
