"""Side observation (independent of the seeded change): floor division of a
negative dimension expression is lowered to ONNX Div (truncating), JAX floors."""
import numpy as np, onnxruntime as ort
from jax2onnx import to_onnx

def f(x):
    return x * ((x.shape[0] - 5) // 2)

m = to_onnx(f, [("B", 2)], model_name="floordiv_neg")
s = ort.InferenceSession(m.SerializeToString(), providers=["CPUExecutionProvider"])
bad = 0
for b in (1, 2, 3, 4, 5, 6, 7):
    x = np.ones((b, 2), np.float32)
    got = s.run(None, {s.get_inputs()[0].name: x})[0][0, 0]
    exp = np.asarray(f(x))[0, 0]
    print(f"B={b}: jax={exp} onnx={got}", "" if got == exp else "<-- differs")
    bad += got != exp
raise SystemExit(1 if bad else 0)
