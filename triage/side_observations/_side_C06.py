"""Side observations on the UNMODIFIED checkout (independent of the seeded change).

Run with the seeded patch reversed:
    git apply -R _seed/patch.diff
    PYTHONPATH=/tmp/wt4/C06 /venv/bin/python _seed/side_observation.py
"""

import jax
import jax.numpy as jnp
import numpy as np
import onnxruntime as ort

from jax2onnx import to_onnx

f32 = np.float32
IDX = np.array([0, 1, 2])


def check(name, fn, args):
    specs = [jax.ShapeDtypeStruct(a.shape, a.dtype) for a in args]
    try:
        model = to_onnx(fn, specs)
        so = ort.SessionOptions()
        so.log_severity_level = 4
        sess = ort.InferenceSession(model.SerializeToString(), so)
        got = sess.run(None, {i.name: a for i, a in zip(sess.get_inputs(), args)})
    except Exception as exc:  # noqa: BLE001
        print(f"{name}: BROKEN MODEL / RUN FAILURE: {str(exc)[:200]}")
        return
    exp = [np.asarray(e) for e in jax.tree_util.tree_leaves(fn(*args))]
    for k, (g, e) in enumerate(zip(got, exp)):
        same = g.shape == e.shape and np.allclose(g, e)
        print(f"{name}: output {k}: onnx shape {g.shape} jax shape {e.shape} ->",
              "ok" if same else "MISMATCH")


# (1) scan over xs whose per-step slice has shape (1,), body also contains a
#     scatter whose updates have static leading dim 3.  The stacked per-step
#     output comes back as (4, 3) instead of (4, 1): scan.py Expand()s every
#     rank>=1 per-step input to the "static scatter extent".
def s1(v, xs):
    def body(v, x):
        v = v.at[IDX].add(jnp.ones(3, jnp.float32))
        return v, x + 1

    return jax.lax.scan(body, v, xs)


check("S1 scan xs(4,1)+scatter(3)", s1, [np.zeros(5, f32), np.arange(4, dtype=f32).reshape(4, 1)])


# (2) fori_loop carrying a (1,)-shaped value next to a scatter(3): square()
#     expands the carry to (3,), the following w[0] Squeeze is then invalid and
#     onnxruntime refuses to load the model (not rejected at export time).
def s2(v, w):
    def body(i, s):
        v, w = s
        v = v.at[IDX].add(jnp.ones(3, jnp.float32) * w[0])
        return v, jnp.square(w) * 0.5 + 1.0

    return jax.lax.fori_loop(0, 3, body, (v, w))


check("S2 fori carry(1,)+square+scatter(3)", s2, [np.zeros(5, f32), np.array([2.0], f32)])


# (3) same body through scan(length=3, xs=None): model loads, Loop fails at run time.
def s3(v, w):
    def body(s, _):
        v, w = s
        v = v.at[IDX].add(jnp.ones(3, jnp.float32) * w[0])
        w = jnp.square(w) * 0.5 + 1.0
        return (v, w), w

    return jax.lax.scan(body, (v, w), None, length=3)


check("S3 scan-no-xs carry(1,)+square+scatter(3)", s3, [np.zeros(5, f32), np.array([2.0], f32)])
