import numpy as np, jax, jax.numpy as jnp
import onnxruntime as ort
from jax2onnx import to_onnx, onnx_function

@onnx_function
def double(x):
    return x * 2.0

def model(x):
    def body(i, c):
        return double(c)
    return jax.lax.fori_loop(0, 3, body, x)

x = np.arange(4, dtype=np.float32) + 1
m = to_onnx(model, [jax.ShapeDtypeStruct((4,), jnp.float32)])
print([ (f.domain, f.name) for f in m.functions])
sess = ort.InferenceSession(m.SerializeToString())
out = sess.run(None, {sess.get_inputs()[0].name: x})[0]
print(out, model(x))
