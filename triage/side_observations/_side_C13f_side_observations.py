import logging; logging.disable(logging.CRITICAL)
import threading
import jax, jax.numpy as jnp, flax.nnx as nnx
import jax2onnx
from jax2onnx import to_onnx
x = jnp.arange(6.0).reshape(2,3)
c0 = jnp.cumsum
print("before: cumsum(x, 0) ->", jnp.cumsum(x, 0).tolist())
to_onnx(lambda a: a + 1, [(3,)])
print("jnp.cumsum same object after first conversion:", jnp.cumsum is c0, "| new attrs:", [n for n in ("cumsum_p",) if hasattr(jnp,n)], hasattr(nnx,"conv_p"), hasattr(jax.lax,"remat2_p"), hasattr(nnx,"relu_p"))
try:
    print("after: cumsum(x, 0) ->", jnp.cumsum(x, 0).tolist())
except Exception as e:
    print("after: cumsum(x, 0) raises", type(e).__name__, e)

# --- overlapping conversions on two threads (non-LIFO unwind) ---
snap = {k: id(v) for k, v in vars(jnp).items()}
lin0 = nnx.Linear.__dict__["__call__"]
a_inside = threading.Event(); b_inside = threading.Event(); a_done = threading.Event()
def fa(v):
    a_inside.set(); b_inside.wait(30); return v + 1
def fb(v):
    b_inside.set(); a_done.wait(30); return v + 2
def ta():
    a_inside.clear(); to_onnx(fa, [(3,)]); a_done.set()
def tb():
    a_inside.wait(30); to_onnx(fb, [(3,)])
A = threading.Thread(target=ta); B = threading.Thread(target=tb)
A.start(); B.start(); A.join(); B.join()
changed = sorted(k for k, v in vars(jnp).items() if snap.get(k) != id(v))
print("jnp attrs changed after two overlapping conversions:", len(changed), changed[:8])
print("nnx.Linear.__call__ restored:", nnx.Linear.__dict__["__call__"] is lin0)
