# Reproducers for discrepancies that exist on the UNMODIFIED checkout (independent of _seed/patch.diff).
import numpy as np, jax, jax.numpy as jnp
import onnxruntime as ort
from jax2onnx import to_onnx

def run(fn, args, name="m"):
    m = to_onnx(fn, inputs=list(args), model_name=name)
    sess = ort.InferenceSession(m.SerializeToString())
    return sess.run(None, {i.name: np.asarray(a) for i, a in zip(sess.get_inputs(), args)})

def check(name, fn, args):
    try:
        exp = [np.asarray(v) for v in jax.tree_util.tree_leaves(fn(*args))]
        got = run(fn, args)
        ok = all(np.allclose(e, g, rtol=1e-4, atol=1e-6, equal_nan=True) for e, g in zip(exp, got))
        print(f"{name}: {'OK' if ok else 'MISMATCH'}")
        if not ok:
            for e, g in zip(exp, got):
                print("   JAX ", e); print("   ONNX", g)
    except Exception as e:
        print(f"{name}: EXPORT ERROR {type(e).__name__}: {str(e)[:160]}")

x = np.array([-100., -1., 0., 1., 100.], np.float32)
m = np.arange(6, dtype=np.float32).reshape(2, 3) + 1
b = np.array([1., 2., 3.], np.float32)

# S1: d/dx leaky_relu at x == 0 (JAX: 1, export: negative_slope)
check("S1 grad leaky_relu at 0", lambda v: jax.grad(lambda u: jax.nn.leaky_relu(u).sum())(v), [x])
# S2: numpy-scalar hyper-parameter silently replaced by the default inside the JVP rule (primal AND tangent)
check("S2a fwd leaky_relu(np.float32 slope)", lambda v: jax.nn.leaky_relu(v, negative_slope=np.float32(0.2)), [x])
check("S2b jvp leaky_relu(np.float32 slope)", lambda v: jax.jvp(lambda u: jax.nn.leaky_relu(u, negative_slope=np.float32(0.2)), (v,), (jnp.ones_like(v),)), [x])
check("S2c jvp elu(np.float32 alpha)", lambda v: jax.jvp(lambda u: jax.nn.elu(u, alpha=np.float32(2.0)), (v,), (jnp.ones_like(v),)), [x])
check("S2d jvp celu(np.float32 alpha)", lambda v: jax.jvp(lambda u: jax.nn.celu(u, alpha=np.float32(2.0)), (v,), (jnp.ones_like(v),)), [x])
# S3: primal output of the softplus JVP rule overflows (log(1+exp(x))) for large x
check("S3a fwd softplus(100)", lambda v: jax.nn.softplus(v), [x])
check("S3b value_and_grad softplus(100)", lambda v: jax.value_and_grad(lambda u: jax.nn.softplus(u).sum())(v), [x])
# S4: loud failures under differentiation for call forms that export fine without it
check("S4a fwd leaky_relu positional slope", lambda v: jax.nn.leaky_relu(v, 0.2), [x])
check("S4b grad leaky_relu positional slope", lambda v: jax.grad(lambda u: jax.nn.leaky_relu(u, 0.2).sum())(v), [x])
check("S4c fwd jnp.add rank-broadcast", lambda a, c: jnp.add(a, c), [m, b])
check("S4d grad jnp.add rank-broadcast", jax.grad(lambda a, c: (jnp.add(a, c) ** 2).sum(), argnums=(0, 1)), [m, b])
check("S4e fwd reshape(-1)", lambda a: jnp.reshape(a, (-1,)), [m])
check("S4f grad reshape(-1)", jax.grad(lambda a: (jnp.reshape(a, (-1,)) ** 2).sum()), [m])
check("S4g fwd tile(int reps)", lambda a: jnp.tile(a, 2), [m])
check("S4h grad tile(int reps)", jax.grad(lambda a: (jnp.tile(a, 2) ** 2).sum()), [m])
