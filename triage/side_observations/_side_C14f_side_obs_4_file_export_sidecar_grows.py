import hashlib, os, tempfile
import numpy as np, jax.numpy as jnp
from jax2onnx import to_onnx
W = np.arange(600*600, dtype=np.float32).reshape(600, 600) / 1e6   # 1.44 MB
def fn(x): return x @ W
d = tempfile.mkdtemp()
p = os.path.join(d, "m.onnx")
for i in range(3):
    to_onnx(fn, inputs=[(2, 600)], model_name="m", return_mode="file", output_path=p)
    print(i, hashlib.sha256(open(p,'rb').read()).hexdigest()[:16], os.path.getsize(p), os.path.getsize(p + ".data") if os.path.exists(p+".data") else None)
