import numpy as np, jax, jax.numpy as jnp
from jax2onnx import to_onnx
import onnxruntime as ort

def f(x):
    return x * ((x.shape[0] - 5) // 2)

m = to_onnx(f, [("B", 3)], return_mode="proto") if True else None
sess = ort.InferenceSession(m.SerializeToString())
for b in (1, 2, 3, 4, 7, 8):
    x = np.arange(b*3, dtype=np.float32).reshape(b, 3) + 1
    got = sess.run(None, {sess.get_inputs()[0].name: x})[0]
    exp = np.asarray(f(jnp.asarray(x)))
    print(b, np.allclose(got, exp), got.ravel()[:2], exp.ravel()[:2])
