"""Side observation (UNMODIFIED checkout): vmap over jax.nn.scaled_dot_general cannot be
exported.  The plugin installs lax.dot_general's *fancy* batching rule for its own primitive,
but that rule requires the keyword params `precision` and `out_sharding`, which the substitute
primitive does not carry -> TypeError while tracing.  Loud failure, not a wrong model."""
import numpy as np, jax, jax.numpy as jnp
import onnxruntime as ort
from jax2onnx.user_interface import to_onnx
from jax.interpreters import batching
print("fancy has dot_general:", jax.lax.dot_general_p in batching.fancy_primitive_batchers)
def run(fn, args, name):
    m = to_onnx(fn, [jax.ShapeDtypeStruct(a.shape, a.dtype) for a in args], model_name=name)
    sess = ort.InferenceSession(m.SerializeToString())
    feeds = {i.name: np.asarray(a) for i, a in zip(sess.get_inputs(), args)}
    return sess.run(None, feeds)
rng = np.random.default_rng(0)
a = rng.normal(size=(4,2,3)).astype(np.float32)
b = rng.normal(size=(4,3,5)).astype(np.float32)
dn = (((1,),(0,)),((),()))
for ax in (0,):
    f = lambda a,b: jax.vmap(lambda x,y: jax.nn.scaled_dot_general(x,y,dn))(a,b)
    ref = np.asarray(f(a,b))
    try:
        got = run(f,[a,b],"sdg")[0]
        print(got.shape, ref.shape, np.abs(got-ref).max())
    except BaseException as e:
        print("ERR", type(e).__name__, str(e)[:300])
