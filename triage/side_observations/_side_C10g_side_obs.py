# Side observation (UNMODIFIED checkout): a jax.checkpoint-ed function that is
# called twice in one exported program cannot be exported when its body contains
# jnp.mean or an indexed update (scatter / scatter-add).
import numpy as np, jax, jax.numpy as jnp
from jax2onnx import to_onnx
a = jax.ShapeDtypeStruct((4, 6), np.float32)
bodies = {
    "jnp.mean": lambda v: jnp.mean(v, axis=0),
    "x.at[0].add": lambda v: v.at[0].add(2.0),
    "x.at[1,2].set": lambda v: v.at[1, 2].set(7.0),
    "jnp.sum (control)": lambda v: jnp.sum(v, axis=0),
}
for name, body in bodies.items():
    g = jax.checkpoint(body)
    for label, fn in (("once", lambda p, q: (g(p), body(q))), ("twice", lambda p, q: (g(p), g(q)))):
        try:
            to_onnx(fn, inputs=[a, a]); print(f"{name:18s} checkpointed {label}: export ok")
        except Exception as e:
            print(f"{name:18s} checkpointed {label}: {type(e).__name__}: {str(e)[:110]}")
