"""Side observation (UNMODIFIED checkout): weak typing is not part of the dedup key.

`scale(x, 3.0)` (weakly typed Python scalar) and `scale(x, jnp.float32(...))`
(strongly typed) have the same (shape, dtype) input signature, so the second
call site re-uses the body traced for the first one, although JAX's promotion
differs (float16 * weak -> float16 arithmetic; float16 * float32 -> float32).
Variant `silent`: the shared body computes the strong call in float16 -> wrong numbers.
Variant `loud`  : output dtypes differ -> ORT refuses to load the model.
"""
import numpy as np, jax, jax.numpy as jnp
import onnxruntime as ort
from jax2onnx import to_onnx, onnx_function


@onnx_function
def scale32(x, s):
    return (x * s).astype(jnp.float32)


@onnx_function
def scale(x, s):
    return x * s


def silent(x):
    a = scale32(x, 3.0)                      # weak scalar: float16 arithmetic
    b = scale32(x, jnp.float32(1000.123))    # strong scalar: float32 arithmetic
    return a + b


def loud(x):
    return scale(x, 2.0).astype(jnp.float32) + scale(x, jnp.float32(3.0))


x = np.array([0.1, 0.2, 0.3, 0.7], dtype=np.float16)
for f in (silent, loud):
    m = to_onnx(f, [jax.ShapeDtypeStruct((4,), jnp.float16)])
    print(f.__name__, "function defs:", [(g.domain, g.name) for g in m.functions])
    try:
        sess = ort.InferenceSession(m.SerializeToString())
        out = sess.run(None, {sess.get_inputs()[0].name: x})[0]
        print("  onnx:", out, "\n  jax :", np.asarray(f(x)))
    except Exception as e:
        print("  ORT:", str(e)[:200])
