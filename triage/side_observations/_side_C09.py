"""Reproducers for C09 violations that exist on the UNMODIFIED checkout.

Independent of the seeded change (they behave the same with and without it).
Run:  cd /tmp/wt4/C09 && PYTHONPATH=/tmp/wt4/C09 /venv/bin/python _seed/side_observations.py
"""

from __future__ import annotations

import warnings

import numpy as np
import onnx
import onnxruntime as ort
import jax
import jax.numpy as jnp
from onnx import TensorProto

from jax2onnx import to_onnx

warnings.filterwarnings("ignore")


def items_of_type(m: onnx.ModelProto, wanted: int) -> list[tuple[str, str, str]]:
    out: list[tuple[str, str, str]] = []

    def graph(g, path):
        for init in g.initializer:
            if init.data_type == wanted:
                out.append((path, "initializer", init.name))
        for vi in list(g.input) + list(g.output) + list(g.value_info):
            if vi.type.tensor_type.elem_type == wanted:
                out.append((path, "value", vi.name))
        for n in g.node:
            node(n, path)

    def node(n, path):
        for a in n.attribute:
            if a.type == onnx.AttributeProto.TENSOR and a.t.data_type == wanted:
                out.append((path, "Constant attr", n.name))
            elif a.type == onnx.AttributeProto.GRAPH:
                graph(a.g, path + "/" + n.op_type)
            elif a.type == onnx.AttributeProto.GRAPHS:
                for sg in a.graphs:
                    graph(sg, path + "/" + n.op_type)
            elif n.op_type == "Cast" and a.name == "to" and a.i == wanted:
                out.append((path, "Cast(to)", n.name))

    graph(m.graph, "main")
    for fn in m.functions:
        for n in fn.node:
            node(n, "fn:" + fn.name)
    return out


def out_types(m):
    return [TensorProto.DataType.Name(o.type.tensor_type.elem_type) for o in m.graph.output]


def run(m, *xs):
    opts = ort.SessionOptions()
    opts.log_severity_level = 3
    s = ort.InferenceSession(m.SerializeToString(), opts, providers=["CPUExecutionProvider"])
    return s.run(None, {i.name: x for i, x in zip(s.get_inputs(), xs)})


F32 = jax.ShapeDtypeStruct((2,), np.float32)
I32 = jax.ShapeDtypeStruct((2,), np.int32)

print("== A. double-precision export of jnp.arctan2 goes through float32 (clause 2)")
m = to_onnx(lambda a, b: jnp.arctan2(a, b), [jax.ShapeDtypeStruct((3,), np.float64)] * 2,
            enable_double_precision=True, model_name="a")
print("   FLOAT items:", items_of_type(m, TensorProto.FLOAT))
a = np.array([0.123456789012, 1.7, -0.3]); b = np.array([0.987654321, -2.2, 0.31])
got = run(m, a, b)[0]; ref = np.arctan2(a, b)
print("   max rel err vs float64 reference:", float(np.max(np.abs(got - ref) / np.abs(ref))))

print("== B. single-precision exports that contain DOUBLE tensors / casts (clause 1)")
cases = {
    "jnp.arange(2, dtype=float64)": (lambda x: x + jnp.arange(2, dtype=np.float64), [F32]),
    "jnp.linspace(0,1,2,dtype=float64)": (lambda x: x + jnp.linspace(0, 1, 2, dtype=np.float64), [F32]),
    "jnp.eye(2, dtype=float64)": (lambda x: x + jnp.eye(2, dtype=np.float64)[0], [F32]),
    "jnp.sum(x, dtype=float64)": (lambda x: jnp.sum(x, dtype=np.float64), [F32]),
    "jnp.prod(x, dtype=float64)": (lambda x: jnp.prod(x, dtype=np.float64), [F32]),
    "jnp.less(int32, float32)": (lambda i, x: jnp.less(i, x), [I32, F32]),
    "jnp.concatenate([int32, float32])": (lambda i, x: jnp.concatenate([i, x]), [I32, F32]),
}
for label, (fn, specs) in cases.items():
    m = to_onnx(fn, specs, enable_double_precision=False, model_name="b")
    d = items_of_type(m, TensorProto.DOUBLE)
    print(f"   {label}: outputs {out_types(m)}; {len(d)} DOUBLE items, e.g. {d[:2]}")

print("== C. float64 jax.Array captured in an x64 process, single-precision export (clause 1)")
jax.config.update("jax_enable_x64", True)
P = jnp.array([0.1, 0.7])  # float64 because the process runs in x64 mode
m = to_onnx(lambda x: jnp.sin(x) * P, [(2,)], enable_double_precision=False, model_name="c")
print("   x64 after export:", jax.config.jax_enable_x64, "| DOUBLE items:", items_of_type(m, TensorProto.DOUBLE))
jax.config.update("jax_enable_x64", False)

print("== D. export inside `with jax.enable_x64(True)` (thread-local override): clauses 1 and 3")
W = np.array([0.1, 0.7])
print("   process-wide flag before:", jax.config.jax_enable_x64)
with jax.enable_x64(True):
    m = to_onnx(lambda x: jnp.sin(x) * W, [(2,)], enable_double_precision=False, model_name="d")
print("   process-wide flag after :", jax.config.jax_enable_x64,
      "| outputs", out_types(m), "| DOUBLE items:", len(items_of_type(m, TensorProto.DOUBLE)))
jax.config.update("jax_enable_x64", False)
