"""Reproducers for call forms that the UNMODIFIED checkout already mishandles (C19).

Independent of the seeded change (none of them touches the keyword form
``m(q, inputs_k=k, inputs_v=v)`` of the linen attention modules).
Run:  PYTHONPATH=/tmp/wt7/C19 /venv/bin/python _seed/side_observations.py
"""
import warnings

import jax
import jax.numpy as jnp
import numpy as np
import onnxruntime as ort
from flax import linen as nn
from flax import nnx

from jax2onnx import to_onnx

warnings.filterwarnings("ignore")


def run(name, fn, *inputs):
    try:
        ref = fn(*[jnp.asarray(i) for i in inputs])
    except Exception as e:  # not a valid library call -> outside the property
        print(f"[{name}] library itself rejects: {type(e).__name__}: {str(e)[:90]}")
        return
    ref = np.asarray(jax.tree_util.tree_leaves(ref)[0])
    try:
        m = to_onnx(fn, [jax.ShapeDtypeStruct(i.shape, i.dtype) for i in inputs])
        s = ort.InferenceSession(m.SerializeToString(), providers=["CPUExecutionProvider"])
        out = s.run(None, {v.name: inputs[int(v.name.split("_")[1])] for v in s.get_inputs()})[0]
        ok = ref.shape == out.shape and ref.dtype == out.dtype and np.allclose(ref, out, atol=1e-5)
        detail = "" if ok else f" library {ref.dtype}{ref.shape} vs model {out.dtype}{out.shape}"
        print(f"[{name}] {'ok' if ok else 'SILENT MISMATCH' + detail}")
    except Exception as e:
        print(f"[{name}] FAILS WHILE TRACED: {type(e).__name__}: {str(e)[:130]}")


x = np.arange(6, dtype=np.float32).reshape(2, 3) - 2.5
xi = np.arange(6, dtype=np.int32).reshape(2, 3)
run("jnp.arange(2, stop=10)", lambda a: a.sum() + jnp.arange(2, stop=10), x)
run("jnp.arange(0, 5, 1, jnp.float32)", lambda a: a.sum() + jnp.arange(0, 5, 1, jnp.float32), x)
run("jnp.arange(0, 5, None)", lambda a: a.sum() + jnp.arange(0, 5, None), x)
run("jax.nn.gelu(x, False)", lambda a: jax.nn.gelu(a, False), x)
run("jax.nn.leaky_relu(x, 0.2)", lambda a: jax.nn.leaky_relu(a, 0.2), x)
run("jnp.clip(int32_x, 0.5, 2.5)", lambda a: jnp.clip(a, 0.5, 2.5), xi)
run("jnp.add.reduce(x, axis=0)", lambda a: jnp.add.reduce(a, axis=0), x)
run("jnp.take(x, idx, 1)", lambda a: jnp.take(a, jnp.array([0, 1]), 1), x)
run("jnp.linspace(0., 1., 5, False)", lambda a: a.sum() + jnp.linspace(0.0, 1.0, 5, False), x)
run("lax.fori_loop(..., unroll=1)", lambda a: jax.lax.fori_loop(0, 3, lambda i, v: v + 1.0, a, unroll=1), x)
run("jnp.stack([x, x], axis=0, dtype=float32)", lambda a: jnp.stack([a, a], axis=0, dtype=jnp.float32), x)

x2 = (np.arange(12, dtype=np.float32).reshape(3, 4) - 5) / 3
drop = nnx.Dropout(0.5, deterministic=True, rngs=nnx.Rngs(0))
run("nnx.Dropout()(x, rngs=Rngs(1))", lambda a: drop(a, rngs=nnx.Rngs(1)), x2)
bn = nnx.BatchNorm(4, use_running_average=True, rngs=nnx.Rngs(0))
bn.mean.value = jnp.arange(4.0)
bn.var.value = jnp.arange(4.0) + 1
run("nnx.BatchNorm()(x, use_running_average=False)", lambda a: bn(a, use_running_average=False), x2)
es = nnx.Einsum("ij,jk->ik", (4, 2), rngs=nnx.Rngs(0))
run("nnx.Einsum()(x, einsum_str='ij,jk->ik')", lambda a: es(a, einsum_str="ij,jk->ik"), x2)

rng = np.random.default_rng(0)
q = rng.normal(size=(1, 4, 8)).astype(np.float32)
k = rng.normal(size=(1, 5, 8)).astype(np.float32)
v = rng.normal(size=(1, 5, 8)).astype(np.float32)
mha = nn.MultiHeadDotProductAttention(num_heads=2, qkv_features=8)
variables = mha.init(jax.random.PRNGKey(0), q, k, v)
run("linen MHA  m(q, k, inputs_v=v)", lambda a, b, c: mha.apply(variables, a, b, inputs_v=c), q, k, v)
