import numpy as np, jax, jax.numpy as jnp
from jax import lax
import onnxruntime as ort
from jax2onnx import to_onnx
ort.set_default_logger_severity(3)

def run(name, fn, *xs):
    try:
        exp = fn(*[jnp.asarray(x) for x in xs])
        exp = [np.asarray(e) for e in (exp if isinstance(exp, (tuple, list)) else [exp])]
        model = to_onnx(fn, inputs=[jax.ShapeDtypeStruct(x.shape, x.dtype) for x in xs])
        sess = ort.InferenceSession(model.SerializeToString(), providers=["CPUExecutionProvider"])
        got = sess.run(None, {i.name: x for i, x in zip(sess.get_inputs(), xs)})
        for e, g in zip(exp, got):
            same = e.shape == g.shape and e.dtype == g.dtype and np.array_equal(e, g, equal_nan=True)
            print(f"{name}: {'same' if same else 'DIFF'}\n    jax ={e.dtype}{e.tolist()}\n    onnx={g.dtype}{g.tolist()}")
    except Exception as ex:
        print(f"{name}: EXC {type(ex).__name__}: {str(ex)[:150]}")

f32 = np.float32
import sys
if len(sys.argv) > 1:
    run("rem int INT_MIN,-1", lambda x, y: lax.rem(x, y), np.array([-2147483648], np.int32), np.array([-1], np.int32))
    sys.exit(0)
run("rem int", lambda x, y: lax.rem(x, y), np.array([-7, 7, -7], np.int32), np.array([2, -2, -2], np.int32))
run("integer_pow int neg base", lambda x: lax.integer_pow(x, 3), np.array([-2, 3, 1291], np.int32))
run("cbrt", lambda x: lax.cbrt(x), np.array([-8.0, 27.0, 0.0], f32))
run("sort -0.0", lambda x: lax.sort(x), np.array([0.0, -0.0, 0.0, -0.0], f32))
run("div int INT_MIN", lambda x, y: lax.div(x, y), np.array([-7, 7], np.int32), np.array([2, -2], np.int32))
run("sign int/uint", lambda x: lax.sign(x), np.array([0, 5, 255], np.uint8))
run("clz", lambda x: lax.clz(x), np.array([0, 1, -1, 1 << 30], np.int32))
run("popcnt", lambda x: lax.population_count(x), np.array([0, 1, -1, -2147483648], np.int32))
run("cumsum reverse int", lambda x: lax.cumsum(x, axis=0, reverse=True), np.array([1, 2, 3, 2147483647], np.int32))
run("argmax ties", lambda x: lax.argmax(x, 0, np.int32), np.array([1.0, 3.0, 3.0, -0.0], f32))
run("top_k ties", lambda x: lax.top_k(x, 2), np.array([1.0, 3.0, 3.0, 3.0], f32))
run("round half", lambda x: lax.round(x), np.array([0.5, 1.5, 2.5, -0.5, -2.5], f32))
run("pow neg base", lambda x, y: lax.pow(x, y), np.array([-2.0, -8.0, 0.0], f32), np.array([3.0, 1.0/3, 0.0], f32))
run("exp2", lambda x: lax.exp2(x), np.array([10.0, -1.0, 0.5, 24.0], f32))
run("logistic large", lambda x: lax.logistic(x), np.array([-100.0, 100.0, -20.0], f32))
run("nextafter", lambda x, y: lax.nextafter(x, y), np.array([0.0, 1.0, -0.0, 3.4028235e38], f32), np.array([-1.0, 2.0, 1.0, np.float32(3.4028235e38)], f32))
run("abs INT_MIN", lambda x: lax.abs(x), np.array([-2147483648, -1], np.int32))
run("neg uint", lambda x: lax.neg(x), np.array([1, 0], np.uint32))
run("mul int overflow", lambda x: x * x, np.array([65536, 46341], np.int32))
run("is_finite", lambda x: lax.is_finite(x), np.array([1.0, 3.4e38], f32))
run("square int8", lambda x: lax.square(x), np.array([100, -128], np.int8))
