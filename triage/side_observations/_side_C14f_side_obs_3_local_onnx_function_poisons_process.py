import hashlib
import jax.numpy as jnp
from jax2onnx import to_onnx, onnx_function
def h(m): return hashlib.sha256(m.SerializeToString(deterministic=True)).hexdigest()[:16]
def plain(x): return jnp.tanh(x) + 1.0
print("before", h(to_onnx(plain, inputs=[(3, 4)], model_name="p")))
def make():
    @onnx_function
    def local_block(x):
        return x * 2.0
    return local_block
lb = make()
try:
    to_onnx(lambda x: lb(x), inputs=[(3,4)], model_name="q")
except Exception as e:
    print("local export failed:", type(e).__name__, str(e)[:100])
try:
    print("after ", h(to_onnx(plain, inputs=[(3, 4)], model_name="p")))
except Exception as e:
    print("after: FAILED", type(e).__name__, str(e)[:100])
