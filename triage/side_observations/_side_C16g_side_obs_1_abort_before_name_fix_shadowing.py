"""Side observation 1 (UNMODIFIED checkout): optimizer abort before/at name_fix
=> to_onnx silently returns a model that computes different numbers.

The lowering hands out the names in_2, in_3, ... to the inputs of a scan/Loop
body (add_input_for_invar(var, idx + 2)), the same names the top graph uses for
its positional inputs.  When the body needs a symbolic dimension whose origin is
a TOP-LEVEL graph input (here: `n = y.shape[0]`, y is top-level `in_3`), the body
captures that outer value by name.  Inside the body the name `in_3` is the
body's own second state variable, which shadows the outer one.  Only the
NameFixPass (optimizer pass #0) renames the clash away.

If the optimizer aborts before that (the very fault that
tests/extra_tests/converter/test_io_names.py::test_nonfatal_optimize_graph_failure_is_logged
injects: optimize_graph raising as a whole), the default policy returns a model
that passes onnx.checker (full_check) and loads in onnxruntime, but reads the
wrong dimension: expected [22, 23], got [16, 17].

Run:  PYTHONPATH=<checkout> python side_obs_1_abort_before_name_fix_shadowing.py
Exit 1 == property C16 violated on the checkout under test.
"""

import sys

import numpy as np
import jax
import jax.numpy as jnp
import onnx
import onnxruntime as ort

from jax2onnx import to_onnx
from jax2onnx.converter import conversion_api


def f(a, b, c, y):
    n = y.shape[0]  # symbolic 'B'; its origin is the top-level input in_3

    def body(carry, _):
        u, v = carry  # body inputs are called in_2, in_3 as well
        w = jnp.sum(jnp.ones((n,), dtype=jnp.float32))
        return (u + w, v * 1.5), u

    (u, v), _ = jax.lax.scan(body, (a, b), None, length=3)
    return u + c, v


a = np.arange(2, dtype=np.float32)
b = np.ones((5,), np.float32)
c = np.ones((2,), np.float32)
y = np.zeros((7,), np.float32)
expected = [np.asarray(r) for r in f(a, b, c, y)]
specs = [(2,), (5,), (2,), ("B",)]


def run(model):
    onnx.checker.check_model(model, full_check=True)
    sess = ort.InferenceSession(model.SerializeToString())
    names = [i.name for i in sess.get_inputs()]
    return sess.run(None, dict(zip(names, [a, b, c, y])))


ok_model = to_onnx(f, specs)
print("optimizer intact   :", run(ok_model)[0], "expected", expected[0])


def _boom(_model):
    raise RuntimeError("optimizer boom")


orig = conversion_api.optimize_graph
conversion_api.optimize_graph = _boom
try:
    aborted_model = to_onnx(f, specs)  # default policy: returns a model
finally:
    conversion_api.optimize_graph = orig

got = run(aborted_model)  # checker passes, onnxruntime loads it
print("optimizer aborted  :", got[0], "expected", expected[0])
if not all(np.allclose(g, e) for g, e in zip(got, expected)):
    print("VIOLATION: model returned after an optimizer abort differs silently")
    sys.exit(1)
sys.exit(0)
