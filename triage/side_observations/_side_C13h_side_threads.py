"""Side observation 2 (unmodified checkout): two conversions that overlap in time
(two threads) unwind the leaf-plugin patches in non-LIFO order; apply_patches has no
reference counting (apply_monkey_patches has), so the thread that finishes last
re-installs the other thread's shim as "the original"."""
import sys, threading
import jax, jax.numpy as jnp
import jax2onnx

jax2onnx.to_onnx(lambda x: x + 1, [(3,)])          # warm-up / plugin import
orig_sum = jnp.sum
a_inside, b_inside, a_done = threading.Event(), threading.Event(), threading.Event()

def fa(x):
    a_inside.set(); b_inside.wait(30)     # A is tracing (patches on) until B is tracing too
    return jnp.sum(x)
def fb(x):
    b_inside.set(); a_done.wait(30)       # B keeps tracing until A has left its scope
    return jnp.sum(x)
def run_a():
    jax2onnx.to_onnx(fa, [(3,)]); a_done.set()
def run_b():
    a_inside.wait(30); jax2onnx.to_onnx(fb, [(3,)])
ta, tb = threading.Thread(target=run_a), threading.Thread(target=run_b)
ta.start(); tb.start(); ta.join(); tb.join()
print("jnp.sum restored:", jnp.sum is orig_sum, jnp.sum)
sys.exit(0 if jnp.sum is orig_sum else 1)
