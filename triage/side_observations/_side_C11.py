"""Reproducers for C11 violations that exist on the UNMODIFIED checkout.

Independent of the seeded change (none of them involves Loop/If bodies).
Run:  PYTHONPATH=/tmp/wt4/C11 /venv/bin/python _seed/side_observations.py
"""

from __future__ import annotations

import equinox as eqx
import jax
import jax.numpy as jnp
import numpy as np
import onnx
from flax.linen import pooling as linen_pooling
from onnx.reference import ReferenceEvaluator

from jax2onnx import to_onnx

S = jax.ShapeDtypeStruct


def report(tag, model):
    ops = [n.op_type for n in model.graph.node]
    try:
        onnx.checker.check_model(model, full_check=True)
        print(f"{tag}: checker ok   ops={ops}")
    except Exception as exc:  # noqa: BLE001
        print(f"{tag}: checker FAIL ops={ops}\n      {str(exc).strip().splitlines()[0]}")


# 1. bfloat16 sum-pooling at opset 21: AveragePool only accepts bfloat16 from
#    opset 22 on, but the bf16 AveragePool lowering is used at opset 21 too.
def pool_sum(x):
    return linen_pooling.pool(
        x, 0.0, jax.lax.add, window_shape=(2, 2), strides=(1, 1), padding="VALID"
    )


for opset in (21, 22):
    report(
        f"[1] linen pool(add) bfloat16 @ opset {opset}",
        to_onnx(pool_sum, [S((1, 4, 4, 1), jnp.bfloat16)], opset=opset),
    )


# 2. dynamic_update_slice "cache update" form at opset >= 24: TensorScatter is
#    emitted with mode="none"; the schema only knows "linear" and "circular".
#    onnx.checker does not look at the string, the reference evaluator refuses.
def dus(ref, upd, idx):
    return jax.lax.dynamic_update_slice(ref, upd, (0, idx, 0))


specs = [S((2, 5, 3), jnp.float32), S((2, 2, 3), jnp.float32), S((), jnp.int32)]
feeds = [
    np.arange(30, dtype=np.float32).reshape(2, 5, 3),
    -np.ones((2, 2, 3), np.float32),
    np.asarray(1, np.int32),
]
for opset in (23, 24):
    m = to_onnx(dus, specs, opset=opset)
    report(f"[2] dynamic_update_slice @ opset {opset}", m)
    try:
        got = ReferenceEvaluator(m).run(
            None, dict(zip([i.name for i in m.graph.input], feeds))
        )[0]
        print("      reference evaluator matches JAX:",
              bool(np.array_equal(got, np.asarray(dus(*feeds)))))
    except Exception as exc:  # noqa: BLE001
        print("      reference evaluator refuses the model:", type(exc).__name__, exc)


# 3. eqx RotaryPositionalEmbedding with enable_double_precision=True at the
#    default opset: RotaryEmbedding-23 has no tensor(double) in its type
#    constraint, the native path is taken regardless of dtype.
rope = eqx.nn.RotaryPositionalEmbedding(embedding_size=32, theta=10_000.0)
for opset in (22, 23):
    report(
        f"[3] eqx RoPE float64 @ opset {opset}",
        to_onnx(
            lambda x: rope(x),
            [S((41, 32), np.float64)],
            opset=opset,
            enable_double_precision=True,
        ),
    )
