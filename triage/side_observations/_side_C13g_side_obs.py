import warnings, logging
warnings.filterwarnings("ignore"); logging.disable(logging.CRITICAL)
import jax, jax.numpy as jnp, flax.nnx as nnx
from jax2onnx import to_onnx
x = jnp.arange(4.0)
before = jnp.cumsum
print("before: jnp.cumsum(a=x) ->", jnp.cumsum(a=x), "| has .lower:", hasattr(jnp.cumsum, "lower"),
      "| cumsum_p:", hasattr(jnp, "cumsum_p"), "| nnx.conv_p:", hasattr(nnx, "conv_p"), "| lax.remat2_p:", hasattr(jax.lax, "remat2_p"))
to_onnx(lambda y: y + 1.0, [(4,)])          # first conversion in the process
print("after : jnp.cumsum is same object:", jnp.cumsum is before, "->", jnp.cumsum)
print("        has .lower:", hasattr(jnp.cumsum, "lower"), "| cumsum_p:", hasattr(jnp, "cumsum_p"),
      "| nnx.conv_p:", hasattr(nnx, "conv_p"), "| nnx.relu_p:", hasattr(nnx, "relu_p"), "| lax.remat2_p:", hasattr(jax.lax, "remat2_p"))
try:
    print("        jnp.cumsum(a=x) ->", jnp.cumsum(a=x))
except Exception as e:
    print("        jnp.cumsum(a=x) raises", type(e).__name__, e)
