# Side observation 1 (unmodified checkout): a non-module-level @onnx_function
# decoration makes every LATER, unrelated to_onnx call in the process fail.
import hashlib
import jax.numpy as jnp
from jax2onnx import to_onnx, onnx_function

def h(m): return hashlib.sha256(m.SerializeToString(deterministic=True)).hexdigest()[:16]
def plain(x): return jnp.tanh(x) + 1.0

print("before:", h(to_onnx(plain, inputs=[(2, 3)], model_name="m")))

def factory():
    @onnx_function            # registered in the process-wide PLUGIN_REGISTRY ...
    def inner(x):             # ... but `inner` is not an attribute of its module
        return x * 2.0
    return inner
factory()

try:
    print("after: ", h(to_onnx(plain, inputs=[(2, 3)], model_name="m")))
except Exception as e:
    print("after:  FAILED", type(e).__name__, e)
